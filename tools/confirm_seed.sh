#!/bin/bash
# confirm_seed.sh <seed-name> <agent-worktree> <property> "<needs>"  : independently confirm a seeded change
# (suite passes with it, demo fails with it and passes without) in a fresh scratch worktree, then store it under /verif/seeded/<name>/
set -u
name=$1; src=$2; prop=$3; needs=$4
W=/tmp/confirm.$$
git -C /repo worktree add -q --detach $W HEAD || exit 9
trap 'git -C /repo worktree remove --force $W' EXIT
cp $src/demo.cpp $W/demo.cpp
SRCS="$W/src/*.cpp $W/src/Crypto/*.cpp $W/src/Document/*.cpp $W/src/Socket/*.cpp"
build_demo() { g++ -std=c++11 -g -fsanitize=address -I$W/include $W/demo.cpp $SRCS -lpthread -lrt -ldl -o $W/$1 2>$W/$1.log; }
cd $W
build_demo demo_clean || { echo "demo does not build on clean tree"; tail $W/demo_clean.log; exit 1; }
ASAN_OPTIONS=detect_leaks=1 timeout 120 ./demo_clean >/dev/null 2>&1; rc_clean=$?
git apply $src/patch.diff || { echo "patch does not apply"; exit 1; }
build_demo demo_mut || { echo "demo does not build on mutated tree"; exit 1; }
ASAN_OPTIONS=detect_leaks=1 timeout 120 ./demo_mut >/dev/null 2>&1; rc_mut=$?
cmake -G Ninja -B $W/_build -S $W -DCMAKE_BUILD_TYPE=RelWithDebInfo >/dev/null 2>&1 && cmake --build $W/_build >/dev/null 2>&1 || { echo "mutated tree does not build"; exit 1; }
ctest --test-dir $W/_build -j8 --timeout 900 > $W/ctest.log 2>&1; rc_ctest=$?
passed=$(grep -c "Passed" $W/ctest.log)
echo "demo clean rc=$rc_clean, demo mutated rc=$rc_mut, ctest rc=$rc_ctest passed=$passed"
if [ $rc_clean -ne 0 ] || [ $rc_mut -eq 0 ] || [ $rc_ctest -ne 0 ]; then echo "NOT CONFIRMED"; exit 1; fi
D=/verif/seeded/$name; mkdir -p $D
cp $src/patch.diff $D/patch.diff; cp $src/demo.cpp $D/demo.cpp
python3 - "$D" "$prop" "$needs" "$rc_clean" "$rc_mut" "$passed" <<'PY'
import json, sys, subprocess
d, prop, needs, rc_clean, rc_mut, passed = sys.argv[1:]
head = subprocess.run(["git","-C","/repo","rev-parse","HEAD"],stdout=subprocess.PIPE,universal_newlines=True).stdout.strip()
json.dump({"property": prop, "needs_to_manifest": needs, "source": "independent sub-agent given only the property text and a scratch worktree",
  "confirmed_against_repo_head": head,
  "ran": ["g++ -fsanitize=address demo.cpp + library sources on the clean tree: exit %s" % rc_clean,
          "same with patch.diff applied: exit %s" % rc_mut,
          "cmake build + ctest -j8 with patch.diff applied: %s/34 tests passed" % passed],
  "detected_by": []}, open(d + "/meta.json", "w"), indent=1)
PY
echo CONFIRMED $D
