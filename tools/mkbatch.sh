#!/bin/bash
# mkbatch.sh <suffix> <Cxx> [<Cxx> ...] : scratch worktrees and prompts for one seeding batch; the avoid-list of a
# property is generated from the changes already stored under /verif/seeded for it
suf=$1; shift
for P in "$@"; do
  p=$(echo $P | tr C c)$suf
  avoid=$(python3 - "$P" <<'PY'
import json, glob, sys
P=sys.argv[1]; out=[]
for f in sorted(glob.glob('/verif/seeded/*/meta.json')):
    d=json.load(open(f)); name=f.split('/')[-2]
    if d.get('property')==P or name.startswith(P.lower()+'-'):
        out.append(name.split('-',1)[1].replace('-',' '))
print('; '.join(out) + ' (choose a function or mechanism none of these touches)')
PY
)
  git -C /repo worktree add -q --detach /tmp/seed_$p HEAD
  python3 /verif/tools/seed_prompt.py $P /tmp/seed_$p "$avoid" > /tmp/seed_$p.prompt
  echo "$p: $(echo "$avoid" | cut -c1-150)"
done
