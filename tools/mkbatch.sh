#!/bin/bash
# mkbatch.sh <suffix> <Cxx> [<Cxx> ...] : scratch worktrees and prompts for one seeding batch; the avoid-list of a
# property is generated from the changes already stored under /verif/seeded for it
suf=$1; shift
for P in "$@"; do
  p=$(echo $P | tr C c)$suf
  avoid=$(python3 - "$P" <<'PY'
import json, glob, sys
P=sys.argv[1]; out=[]
for f in sorted(glob.glob('/verif/seeded/*/meta.json')):
    d=json.load(open(f)); name=f.split('/')[-2]
    KW={'C01':['-map-','multimap'],'C02':['hashmap','hashset','poolmap'],'C03':['-list-','array','poollist'],'C04':['swap','clear','append','assign','remove','destructor'],'C05':['swap','remove','hashmap','poolmap','multimap','poollist'],'C06':['string'],'C07':['variant'],'C08':['buffer'],'C09':['ptr','string-detach','variant','xmlvariant','string-trim'],'C13':['buffer-resize','write','resume','drain','onwrite','poll-set'],'C14':['poll','timer','accept','run-skips','deleteclient']}
    if d.get('property')==P or name.startswith(P.lower()+'-') or any(k in name for k in KW.get(P,[])):
        out.append(name.split('-',1)[1].replace('-',' '))
print('; '.join(out) + ' (choose a function or mechanism none of these touches)')
PY
)
  git -C /repo worktree add -q --detach /tmp/seed_$p HEAD
  python3 /verif/tools/seed_prompt.py $P /tmp/seed_$p "$avoid" > /tmp/seed_$p.prompt
  echo "$p: $(echo "$avoid" | cut -c1-150)"
done
