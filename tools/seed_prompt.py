#!/usr/bin/env python3
import json, sys
pid, wt = sys.argv[1], sys.argv[2]
avoid = sys.argv[3] if len(sys.argv) > 3 else ''
avoid_text = (' Somebody else already tried the following, so choose a DIFFERENT function or mechanism: ' + avoid) if avoid else ''
for l in open('/verif/properties.jsonl'):
    p = json.loads(l)
    if p['id'] == pid: break
print(f"""You are helping to test a verification effort for the C++ library craflin/libnstd. Work ONLY inside the git worktree {wt} (a checkout of the library; do not touch /repo or /verif, do not read anything under /verif). Build it with: cmake -G Ninja -B {wt}/_build -S {wt} -DCMAKE_BUILD_TYPE=RelWithDebInfo && cmake --build {wt}/_build ; run the existing test-suite with: ctest --test-dir {wt}/_build -j8 --timeout 900 . No network is available.

The library is supposed to satisfy this property:

TITLE: {p['title']}
STATEMENT: {p['statement']}
QUANTIFIER: {p['quantifier']['text']}
FILES INVOLVED: {', '.join(p['anchors']['files'])}
MECHANISMS: {json.dumps(p['anchors']['mechanism'])}

Your task: produce ONE realistic source change (a bug a maintainer could plausibly introduce: an off-by-one, a forgotten update of a link/counter, a wrong condition, a missing branch, an optimisation that is wrong in a corner case, two sites that each look fine alone...) to the library sources under {wt}/include or {wt}/src that BREAKS the property above while the library still compiles and the ENTIRE existing test-suite still passes (run it to be sure: all 34 tests must pass). The change must need something specific to manifest - a particular multi-step sequence of operations, a particular tree/chain shape, a particular size or capacity boundary, an unusual input, a particular interleaving or fault - NOT something ordinary use exposes at once. Do not change tests. Keep the change small (a few lines).{avoid_text}

Also write a small stand-alone demonstration program {wt}/demo.cpp (plain C++, using the library headers; note nstd/Base.hpp defines placement new itself, so do NOT include <new>, <string>, <vector> or other C++ standard headers that pull in <new> in the same file - use <stdio.h>/<stdlib.h>/<string.h>/<pthread.h> only) that exits 0 when the property holds on the scenario and exits non-zero (or crashes under -fsanitize=address) with your change applied. Build it e.g. with: g++ -std=c++11 -g -fsanitize=address -I{wt}/include demo.cpp {wt}/src/*.cpp {wt}/src/Crypto/*.cpp {wt}/src/Document/*.cpp {wt}/src/Socket/*.cpp -lpthread -lrt -ldl -o demo (leave out source directories you do not need). Verify yourself: demo passes WITHOUT the change (toggle it with `git -C {wt} diff -- include src > /tmp/x.diff; git -C {wt} apply -R /tmp/x.diff; ...; git -C {wt} apply /tmp/x.diff` using a file name of your own; NEVER use `git stash`: the stash is shared with other worktrees of the same repository and other people use them concurrently) and fails WITH it; the test-suite passes WITH it.

When done, leave the change applied in the worktree's working tree (uncommitted), write the diff to {wt}/patch.diff with `git -C {wt} diff -- include src > {wt}/patch.diff`, and reply with: (1) a short description of the change and why it breaks the property, (2) exactly what is needed for it to manifest, (3) the commands you ran and their results (test-suite result with the change, demo result with and without). Delete the _build directory of the worktree when you are finished ({wt}/_build) to save disk space, but keep patch.diff and demo.cpp.""")
