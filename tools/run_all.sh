#!/bin/bash
# run_all.sh <tier> [ids...] : run checks one after the other, print one summary line each
tier=${1:-quick}; shift
ids=${@:-C01 C02 C03 C04 C05 C06 C07 C08 C09 C10 C11 C12 C13 C14 C15 C16 C17 C18 C19 C20}
cd "$(dirname "$0")/.."
for c in $ids; do
  s=$(date +%s)
  out=$(./check $c --tier $tier 2>&1); rc=$?
  echo "$c rc=$rc $(( $(date +%s) - s ))s :: $(echo "$out" | grep -E "^C[0-9]+ (quick|thorough):" | tail -1)"
  echo "$out" | grep -E "VIOLATION|HARNESS|KNOWN|key=|msg=" | head -6
done
