#!/bin/bash
# revert every fix commit recorded in known_findings.txt in a scratch worktree and run the quick check of its property
cd "$(dirname "$0")"
grep "^fixed:" ../known_findings.txt | while read -r _ prop commit rest; do
  p=${prop#property=}
  r=$(MUTLINES=2 ./mut.sh $p quick revert $commit 2>&1 | grep -E "check|key=" | tr '\n' ' ')
  echo "$commit $p :: $r"
done
