#!/bin/bash
# try_batch.sh <suffix> <Cxx> [...] : run the quick check of each property against the seed its sub-agent left in /tmp/seed_<cxx><suffix>
suf=$1; shift
for P in "$@"; do
  p=$(echo $P | tr C c)$suf
  [ -f /tmp/seed_$p/patch.diff ] || { echo "$p: no patch yet"; continue; }
  echo "== $p"; MUTLINES=${MUTLINES:-3} timeout 3000 $(dirname $0)/mut.sh $P quick patch /tmp/seed_$p/patch.diff
done
