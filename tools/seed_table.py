#!/usr/bin/env python3
"""Regenerates the seeded-change part of DESIGN.md (between the SEEDS markers) from /verif/seeded/*/meta.json."""
import json, glob, os, re
HERE = os.path.dirname(os.path.dirname(os.path.abspath(__file__)))
rows = []
for f in sorted(glob.glob(os.path.join(HERE, "seeded", "*", "meta.json"))):
    d = json.load(open(f)); name = os.path.basename(os.path.dirname(f))
    rows.append((name, d))
missed = [(n, d) for n, d in rows if (d.get("initially_missed") or d.get("initially_missed_by")) and not d.get("not_detected")]
undetected = [(n, d) for n, d in rows if d.get("not_detected")]
byprop = {}
for n, d in rows:
    byprop.setdefault(n[:3].upper(), []).append((n, d))
out = []
out.append("Seeded by independent sub-agents that saw only the property text and a scratch checkout (`/verif/seeded/<name>/`: `patch.diff`, `demo.cpp`,")
out.append("`meta.json` with what it needs to manifest, how it was confirmed - suite passes with it, demo fails with / passes without - and which")
out.append("check reports it). %d changes in total; %d of them were **missed by the first run** of the check that should have reported them, and each miss" % (len(rows), len(missed)))
out.append("was turned into a strengthening of the machinery (second table); %s reported now (re-run with `tools/mut.sh <id> quick patch seeded/<name>/patch.diff`)."
           % (("every one of the %d is" % len(rows)) if not undetected else ("%d of the %d are" % (len(rows) - len(undetected), len(rows)))))
if undetected:
    out.append("**Not reported by any check** (%d): " % len(undetected) + "; ".join("`%s` - %s" % (n, d.get("note", "")) for n, d in undetected))
out.append("")
out.append("| property (as given to the sub-agent) | seeded changes (directory names under `seeded/`) |")
out.append("|---|---|")
for p in sorted(byprop):
    names = ", ".join("`%s`%s" % (n[4:], " (not reported)" if d.get("not_detected") else " (*)" if (d.get("initially_missed") or d.get("initially_missed_by")) else "") for n, d in byprop[p])
    out.append("| %s (%d) | %s |" % (p, len(byprop[p]), names))
out.append("")
out.append("(*) missed at first:")
out.append("")
out.append("| seeded change | reported by (now) | why it was missed, what was changed |")
out.append("|---|---|---|")
for n, d in missed:
    det = "; ".join(x.split(":")[0] for x in d.get("detected_by", []))
    out.append("| `%s` | %s | %s |" % (n, det, d.get("note", "").replace("|", "/")))
text = "\n".join(out)
p = os.path.join(HERE, "DESIGN.md"); s = open(p).read()
a, b = "<!-- SEEDS:BEGIN -->", "<!-- SEEDS:END -->"
assert a in s and b in s
s = s[:s.index(a) + len(a)] + "\n" + text + "\n" + s[s.index(b):]
open(p, "w").write(s)
print("seeds:", len(rows), "missed at first:", len(missed))
