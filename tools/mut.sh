#!/bin/bash
# mut.sh <check-ids,comma> <tier> <kind> ...  : apply a mutation to a scratch worktree of /repo (never /repo itself),
# run the checks against it with all outputs redirected to a scratch dir, remove both.
#   mut.sh C01 quick sed 's/a/b/' include/nstd/Map.hpp
#   mut.sh C01 quick patch /path/to/patch.diff
#   mut.sh C01 quick revert <commit>
#   mut.sh C01 quick none            (unchanged tree, for timing)
set -u
id=$1; tier=$2; kind=$3; shift 3
W=/tmp/mutwt.$$; O=/tmp/mutout.$$
git -C /repo worktree add -q --detach $W HEAD || exit 9
trap 'git -C /repo worktree remove --force $W; rm -rf $O' EXIT
cd $W
case $kind in
  sed) expr=$1; file=$2; sed -i -E "$expr" "$file";;
  patch) git apply "$1" || { echo "patch does not apply"; exit 9; };;
  revert) git revert --no-commit "$1" >/dev/null 2>&1 || { echo "revert failed"; exit 9; }; git reset -q;;
  none) ;;
esac
if [ "$kind" != none ] && [ -z "$(git status --porcelain --untracked-files=no)" ]; then echo "MUTATION DID NOT CHANGE ANYTHING"; exit 9; fi
git --no-pager diff --stat | tail -1
cd /verif
IFS=, ; for c in $id; do
  VERIF_REPO=$W VERIF_OUT=$O timeout 7200 ./check $c --tier $tier > $O.log 2>&1; rc=$?
  echo "check $c rc=$rc"; grep -a -E "VIOLATION|key=|msg=|HARNESS|KNOWN" $O.log | head -${MUTLINES:-8}
done
rm -f $O.log
