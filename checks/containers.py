"""Shared build/run logic of the container history harnesses (explorer A) used by
C01 (Map/MultiMap), C02 (hash containers), C03 (List/Array/PoolList), C04
(lifetimes/copies/self arguments) and C05 (address stability)."""
import os, subprocess
from engine.driver import ASAN_FLAGS, HarnessError

BFS_FLAGS = ASAN_FLAGS + ["-fno-access-control"]


def compile_probe(ctx, code, flags=None):
    """does this snippet compile against the current /repo headers?"""
    src = os.path.join(ctx.bdir, "probe_%d.cpp" % abs(hash(code)))
    open(src, "w").write(code)
    cmd = ["g++", "-std=c++11", "-fsyntax-only", "-w", "-DNDEBUG", "-I" + ctx.shim_inc(), "-I" + ctx.repo("include"),
           "-I" + ctx.verif()] + (flags or []) + [src]
    return subprocess.run(cmd, stdout=subprocess.DEVNULL, stderr=subprocess.DEVNULL).returncode == 0


def build_variant(ctx, name, source, defines, internals=True):
    """builds harness/<source> with the defines; falls back to a build without access
    to internals (coarser canonical state) if private names changed."""
    flags = BFS_FLAGS + ["-D" + d for d in defines]
    if internals:
        try:
            return ctx.compile(name, [ctx.verif("harness", source)], flags=flags + ["-DVF_INTERNALS"]), True
        except HarnessError as e:
            ctx.notes.append("%s: build with access to container internals failed (internals changed?); "
                             "falling back to the public canonical state" % name)
            first = str(e)
            try:
                return ctx.compile(name, [ctx.verif("harness", source)], flags=flags), False
            except HarnessError:
                raise HarnessError(first)
    return ctx.compile(name, [ctx.verif("harness", source)], flags=flags), False


_built = {}


def build_variant2(ctx, name, sources, defines, extra_sources=None):
    """like build_variant, harness sources given by name, plus repository sources; cached per run"""
    if name in _built:
        return _built[name]
    flags = BFS_FLAGS + ["-D" + d for d in defines]
    srcs = [ctx.verif("harness", s) for s in sources] + list(extra_sources or [])
    try:
        b = ctx.compile(name, srcs, flags=flags + ["-DVF_INTERNALS"])
    except HarnessError as e:
        first = str(e)
        try:
            b = ctx.compile(name, srcs, flags=flags)
            ctx.notes.append("%s: build with access to container internals failed (internals changed?); "
                             "using the public canonical state" % name)
        except HarnessError:
            raise HarnessError(first)
    _built[name] = b
    return b


def bfs_job(binary, label, opts, workers):
    args = []
    for k, v in opts.items():
        if v is True:
            args.append("--" + k)
        elif v is False or v is None:
            continue
        else:
            args += ["--" + k, str(v)]
    args += ["--workers", str(workers)]
    return (binary, args, label)


def run_bfs_configs(ctx, configs):
    """configs: list of (binary, label, opts).  All configurations share the 16 cores:
    big ones get many workers and run one after the other, small ones run side by side."""
    big = [c for c in configs if c[2].get("_big")]
    small = [c for c in configs if not c[2].get("_big")]
    for b, label, opts in big:
        o = {k: v for k, v in opts.items() if not k.startswith("_")}
        o.setdefault("owntag", ctx.id)
        ctx.run_jobs([bfs_job(b, label, o, 16)], parallel=1)
    if small:
        jobs = []
        for b, label, opts in small:
            o = {k: v for k, v in opts.items() if not k.startswith("_")}
            o.setdefault("owntag", ctx.id)
            jobs.append(bfs_job(b, label, o, 4))
        ctx.run_jobs(jobs, parallel=4)


def mc_coverage(ctx, rule, extra=None):
    c = ctx.counters
    cov = {"states": int(c.get("states", 0)), "transitions": int(c.get("transitions", 0)),
           "traces_validated_against_impl": int(c.get("transitions", 0)),
           "configurations": int(c.get("configs", 0)), "fixpoints_reached": int(c.get("fixpoints", 0)),
           "depth_bounded_configurations": int(c.get("depth_bounded_runs", 0)),
           "violating_transitions": int(c.get("violating_transitions", 0)),
           "rule": rule,
           "exhaustive": c.get("depth_bounded_runs", 0) == 0 and not c.get("deadline_hit") and not c.get("state_cap_hit"),
           "explanation": "states = distinct canonical states of the real object reached by BFS over operation histories; "
                          "transitions = operations executed on the real code from those states, each compared with the "
                          "reference model (so every explored trace is validated against the implementation)"}
    if extra:
        cov.update(extra)
    return cov


def replay_generic(ctx, rp, builders):
    """re-run one recorded history with tracing. builders: {binary-basename: fn(ctx)->path}"""
    name = rp.get("binary")
    if name not in builders:
        print("unknown harness binary in replay file:", name)
        return 2
    b = builders[name](ctx)
    hist = rp["case"].split("{hist=")[-1].rstrip("}") if "{hist=" in rp["case"] else rp["case"]
    args = [a for a in rp.get("args", []) if a]
    cmd = [b] + args + ["--replay-case", hist]
    env = dict(os.environ)
    from engine.driver import ASAN_ENV
    env.update(ASAN_ENV)
    print("replay:", " ".join(cmd))
    try:
        r = subprocess.run(cmd, env=env, timeout=900)
    except subprocess.TimeoutExpired:
        print("replay: the history did not terminate")
        print("VIOLATION property=%s replay=%s" % (ctx.id, "(replayed)"))
        return 1
    if r.returncode == 97:
        print("replay: the operation did not terminate within the watchdog limit (hang reproduced)")
    if r.returncode == 0:
        print("replay: property held on this history")
        return 0
    print("VIOLATION property=%s replay=%s" % (ctx.id, "(replayed)"))
    return 1
