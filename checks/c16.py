"""C16 XML: exhaustive input enumeration (explorer D) for parse totality/safety/error position, comments/PIs at every
boundary, serialise-parse round trip; element value copies via the handle harness (shared with C09)."""
from checks import containers as K
SRC = ["src/Document/Xml.cpp", "src/String.cpp", "src/Memory.cpp", "src/Debug.cpp", "src/Error.cpp", "src/File.cpp", "src/Directory.cpp", "src/Time.cpp"]

def build(ctx):
    return ctx.compile("xml_h", [ctx.verif("harness/xml_h.cpp")] + [ctx.repo(s) for s in SRC])

def params(tier):
    return dict(parse_len=5, valtok=2, texttok=2, sizes=300, reuse=(2, 3)) if tier == "quick" else dict(parse_len=6, valtok=2, texttok=3, sizes=1200, reuse=(3, 3))

def run(ctx):
    from checks import handles
    p = params(ctx.tier)
    b = build(ctx)
    ctx.run_shards(b, ["--mode", "deep"], nshards=4, label="xml deep")
    ctx.run_shards(b, ["--mode", "round", "--valtok", str(p["valtok"]), "--texttok", str(p["texttok"])], label="xml roundtrip")
    ctx.run_shards(b, ["--mode", "bytes"], nshards=1, label="xml bytes")
    ctx.run_shards(b, ["--mode", "sizes", "--len", str(p["sizes"])], label="xml sizes")
    ctx.run_shards(b, ["--mode", "comments", "--valtok", "1", "--texttok", "1"], label="xml comments")
    ctx.run_shards(b, ["--mode", "parse", "--len", str(p["parse_len"])], label="xml parse")
    ctx.run_shards(b, ["--mode", "reuse", "--len", str(p["reuse"][0]), "--len2", str(p["reuse"][1])], label="xml parser reuse")
    handles.run_xml(ctx)
    c = ctx.counters
    ev = sum(c.get(k, 0) for k in ("parse_inputs", "deep_inputs", "roundtrip_trees", "comment_documents", "size_documents", "byte_documents", "prefix_inputs")) + c.get("transitions", 0)
    cov = {"evaluations": int(ev), "distinct_nontrivial": int(c.get("distinct_nontrivial", 0)),
           "rule": "parse: every string of <= %d tokens over a 27-token alphabet (< > / = \" ' ? ! - & ; # a b SP LF CR 1 x <!-- --> <? ?> </ /> &amp; &#65;) "
                   "through both entry points, exactly sized heap copy under ASan, time and memory watchdog, error line/column against the line structure; "
                   "nesting 1..1000 (plain, and with an empty / a non-empty sibling on every level); round trip: element trees with <= 3 elements, <= 2 attributes, values of <= %d tokens over {a \" ' & < > LF CR SP e-acute "
                   "&#65; &amp;}, non-blank non-adjacent text of <= %d tokens over {a SP / = \" & < LF}; every byte prefix of every serialised tree and of every document with a multi-line comment (truncation inside delimiters, entities, quoted values); bytes: every 7-bit character XML allows, alone / between letters / doubled, as attribute value and as text; references: decimal character references of 20 code points (each power of ten, each UTF-8 length boundary, up to 1114111) with 0..3 leading zeros, as attribute value and as text, against an independent UTF-8 encoder; sizes: attribute values and texts a^{0,1} c^n z^{0,1,3} for every "
                   "escaped character c and n = 0..%d (every reallocation point of the escaper), and wide trees with n = 0..%d and 2^k-1, 2^k, 2^k+1 (k = 8..14) children of three kinds; comments: every tree serialised by the harness with "
                   "one of three comment forms at every token boundary (white-space separated inside tags) and processing instructions with a line break "
                   "before the root; parser reuse: every pair (first document of <= %d tokens, second of <= %d tokens) parsed by one Xml::Parser into one Element - verdict, tree, error line/column/text of the second parse equal those of a fresh parser; plus the Xml::Variant handle histories (copy, assignment, toElement() on shared values)"
                   % (p["parse_len"], p["valtok"], p["texttok"], p["sizes"], p["sizes"], p["reuse"][0], p["reuse"][1]),
           "exhaustive": True, "bounds": p, "handle_states": int(c.get("states", 0)), "reuse_pairs": int(c.get("reuse_pairs", 0)),
           "parse_accepted": int(c.get("parse_accepted", 0)), "parse_rejected": int(c.get("parse_rejected", 0))}
    return ctx.finish("exploration", cov, ["inputs are NUL-terminated", "comments inside tags are separated from names by white space"], tags=["C16"])

def replay(ctx, rp):
    b = build(ctx)
    print("replay: re-running the enumeration that produced:", rp["case"][:200])
    ctx.run_shards(b, [a for a in (rp.get("args") or ["--mode", "parse", "--len", "5"]) if not a.startswith("--shard")][:6])
    return ctx.finish("exploration", {"evaluations": 1, "distinct_nontrivial": 2, "rule": "replay"}, tags=["C16"])
