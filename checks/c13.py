"""C13 Server clients deliver written bytes completely and in order (explorer C: deviation-bounded DFS over the
operating system's answers and the application's actions)."""
import os
from engine.driver import ASAN_FLAGS

LIB_ENV = ["src/Socket/Server.cpp", "src/Socket/Socket.cpp", "src/Time.cpp"]
LIB = ["src/Future.cpp", "src/Signal.cpp", "src/Thread.cpp", "src/Mutex.cpp", "src/String.cpp", "src/Memory.cpp", "src/Debug.cpp", "src/Error.cpp", "src/System.cpp"]

def build(ctx, harness="server_io_h.cpp", name="server_io_h", shim_name="shim.h"):
    shim = ["-include", ctx.verif("engine/env", shim_name)]
    per = {ctx.repo(s): shim for s in LIB_ENV}
    return ctx.compile(name, [ctx.verif("harness", harness)] + [ctx.repo(s) for s in LIB_ENV + LIB], per_source_flags=per)

def build_multi(ctx):
    return build(ctx, harness="server_multi_h.cpp", name="server_multi_h", shim_name="shim_ctl.h")

def run(ctx):
    b = build(ctx)
    q = ctx.tier == "quick"
    m = build_multi(ctx)
    mt, meb, mrb = (3, 2, 1) if q else (3, 2, 2)
    ctx.run_shards(m, ["--prop", "C13", "--turns", str(mt), "--eb", str(meb), "--rb", str(mrb)], label="two clients turns=%d eb=%d rb=%d" % (mt, meb, mrb))
    cfgs = [(4, 3)] if q else [(5, 2), (5, 3), (6, 1)]
    for turns, eb in cfgs:
        ctx.run_shards(b, ["--turns", str(turns), "--eb", str(eb)], label="server io turns=%d eb=%d" % (turns, eb))
    # clients created by accept / connect over loopback TCP (the C14 harness): writes and suspend inside onAccepted / onConnected
    from checks import c14
    tcp = c14.build_tcp(ctx)
    ctx.run_shards(tcp, ["--prop", "C13", "--turns", "3", "--reactions", "1" if q else "2"], label="server tcp turns=3 (accepted / connected clients)")
    c = ctx.counters
    cov = {"states": int(c.get("executions", 0)), "transitions": int(c.get("app_actions", 0) + c.get("send_calls", 0)),
           "traces_validated_against_impl": int(c.get("executions", 0)),
           "executions_with_backlog": int(c.get("executions_with_backlog", 0)), "send_deviations": int(c.get("send_deviations", 0)),
           "rule": "one Server client over a real socket pair; application turns at a 1 ms virtual timer choose among {nothing, write 1/3/8 counter bytes, suspend, resume, "
                   "peer writes 2 bytes} (every sequence of %s turns); every send() of the client asks the environment for full (default) / would-block / partial 1, n/2, n-1 "
                   "and every poll for the peer reading all (default) / nothing / one byte, with at most %s non-default answers; the run continues with default answers "
                   "until the backlog has drained; oracle: peer stream is a prefix of and finally equal to the accepted data, postponed and getSendBufferSize() equal "
                   "accepted minus handed-to-OS bytes, onWrite exactly once per drained backlog episode, no onRead while suspended, client reads what the peer sent, ASan. "
                   "Two clients: %d turns over {nothing, write 3 to both / to client 0, both peers / peer 1 write 2, suspend / resume / remove client 1}, every onRead / onWrite "
                   "may suspend, resume or remove the other client (at most %d such reactions), send answers full / would-block / partial 1 with at most %d deviations; a "
                   "descriptor that answered would-block is not writable before time advances, so both clients reach one poll round readable and writable with a backlog; "
                   "same oracle per client plus no callback after remove(); accepted / connected clients over loopback TCP: 3 turns, write with a partial send and suspend inside onAccepted / onConnected"
                   % (("/".join(str(t) for t, _ in cfgs), "/".join(str(e) for _, e in cfgs)) + (mt, mrb, meb)),
           "executions_with_two_backlogs": int(c.get("executions_with_two_backlogs", 0)), "polls_with_two_ready_clients": int(c.get("polls_with_two_ready_clients", 0)),
           "executions_with_colliding_client_addresses": int(c.get("colliding_client_addresses", 0)),
           "explanation": "stateless exhaustive DFS over choice sequences: states = complete executions, transitions = application actions and intercepted send calls on the real implementation",
           "exhaustive": not c.get("deadline_hit")}
    return ctx.finish("model_checking", cov, ["real kernel socket-pair and epoll semantics; the one-client harness injects would-block and partial sends only; the two-client harness also a connection reset"], tags=["C13"])

def replay(ctx, rp):
    import subprocess
    from engine.driver import ASAN_ENV
    bn = rp.get("binary", "")
    if bn.startswith("server_tcp"):
        from checks import c14
        b = c14.build_tcp(ctx)
    else:
        b = build_multi(ctx) if bn.startswith("server_multi") else build(ctx)
    choices = rp["case"].split("choices=")[1].split(" ")[0]
    clean = []; skip = False
    for a in rp.get("args", []):
        if skip: skip = False; continue
        if a in ("--shard", "--nshards"): skip = True; continue
        clean.append(a)
    env = dict(os.environ); env.update(ASAN_ENV)
    r = subprocess.run([b] + clean + ["--replay-case", choices], env=env, stdout=subprocess.PIPE, stderr=subprocess.STDOUT, universal_newlines=True)
    print(r.stdout[-3000:])
    if "REPRODUCED" in r.stdout or r.returncode != 0:
        print("VIOLATION property=C13 replay=(replayed)"); return 1
    return 0
