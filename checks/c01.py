"""C01 Map / MultiMap: history BFS to a fix-point over a finite key universe."""
from checks import containers as K

def builders(ctx):
    r = {}
    noassign = [] if K.compile_probe(ctx, "#include <nstd/MultiMap.hpp>\nvoid f(MultiMap<int,int>& a, MultiMap<int,int>& b){a=b;}\n") else ["VF_NOASSIGN"]
    if noassign:
        ctx.notes.append("MultiMap has no usable copy assignment: assignment operations are not part of its alphabet")
    r["map_h"] = lambda c: K.build_variant(c, "map_h", "map_h.cpp", [])[0]
    r["mmap_h"] = lambda c: K.build_variant(c, "mmap_h", "map_h.cpp", ["VF_MULTI"] + noassign)[0]
    return r

def configs(ctx, b, selfops=False):
    m, mm = b["map_h"](ctx), b["mmap_h"](ctx)
    so = {"selfops": True} if selfops else {}
    if ctx.tier == "quick":
        cs = [(m, "Map K=9", dict(keys=9, _big=True, **so)),
              (mm, "MultiMap K=3 max=7", dict(keys=3, maxsize=7, **so)),
              (mm, "MultiMap K=2 max=8", dict(keys=2, maxsize=8, **so))]
        sparse = [(6, 5, False), (6, 4, True)]
    else:
        cs = [(m, "Map K=12", dict(keys=12, _big=True, **so)),
              (mm, "MultiMap K=4 max=9", dict(keys=4, maxsize=9, _big=True, **so)),
              (mm, "MultiMap K=2 max=12", dict(keys=2, maxsize=12, **so))]
        sparse = [(6, 6, False), (6, 6, True), (7, 5, False), (7, 5, True)]
    if not selfops:
        # sparse (Fibonacci-shaped) trees are where removal rebalancing is stressed: start from the minimal AVL
        # tree of a given height and explore every removal / re-insertion sequence up to a depth
        for h, d, mir in sparse:
            for b_, nm in ((m, "Map"), (mm, "MultiMap")):
                o = dict(fib=h, depth=d, _big=True)
                if mir:
                    o["mirror"] = True
                cs.append((b_, "%s fib h=%d depth=%d%s" % (nm, h, d, " mirrored" if mir else ""), o))
    return cs

RULE = ("BFS over histories of insert / hinted insert at every position / remove by key, iterator, front, back / clear / "
        "copy-construct / assign / bulk insert on the real Map and MultiMap, de-duplicated on the pre-order tree shape "
        "(keys, height, slope); after every transition the container is compared with a sorted reference "
        "(iteration both ways, size, front/back, find/contains/count of every key, returned iterators) and the "
        "comparison counter of find is checked against 2*floor(1.4405*log2(n+2)). Additional configurations start every history "
        "from the minimal (Fibonacci-shaped) AVL tree of height 6/7 (20/33 keys, built by level-order insertion, also mirrored) and "
        "explore all remove(key)/insert(key) sequences up to the stated depth (depth-bounded, not a fix-point)")

def run(ctx):
    b = builders(ctx)
    K.run_bfs_configs(ctx, configs(ctx, b))
    cov = K.mc_coverage(ctx, RULE, {"max_find_comparisons": ctx.counters.get("max:find_comparisons")})
    # the sparse-tree configurations are depth bounded by design; the claim "exhaustive" is per configuration:
    cov["exhaustive"] = not ctx.counters.get("deadline_hit") and not ctx.counters.get("state_cap_hit")
    cov["exhaustive_meaning"] = ("finite-universe configurations ran to a fix-point; sparse-tree configurations enumerated every "
                                 "history up to their depth bound (see counters max:depth_completed:*)")
    return ctx.finish("model_checking", cov,
                      ["key universe 0..K-1 (values never influence control flow)",
                       "which of several equal keys MultiMap::find/remove(key) picks and where a hinted equal key lands "
                       "inside its equal range are unspecified: the reference adopts the observed choice"],
                      tags=["C01"])

def replay(ctx, rp):
    return K.replay_generic(ctx, rp, builders(ctx))
