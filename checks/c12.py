"""C12 signals/slots under re-entrancy: exhaustive depth-first enumeration of programs (top-level steps x reactions inside slots)
on the real Callback implementation with a lockstep model."""
from engine.driver import ASAN_FLAGS, HarnessError

ARITIES = [(0, 1), (2, 3), (4, 5), (6, 7), (8, 8), (1, 1)]     # equal arities: the same slots serve both signals
#     # the library has one emit/connect overload per parameter count 0..8

def build(ctx, arity=(0, 1)):
    srcs = [ctx.verif("harness/callback_h.cpp"), ctx.repo("src/Callback.cpp"), ctx.repo("src/Memory.cpp"), ctx.repo("src/Debug.cpp")]
    flags = ASAN_FLAGS + ["-fno-access-control", "-DVF_ARITY_A=%d" % arity[0], "-DVF_ARITY_B=%d" % arity[1]]
    name = "callback_h" if arity == (0, 1) else "callback_h_%d_%d" % arity
    try:
        return ctx.compile(name, srcs, flags=flags + ["-DVF_INTERNALS"])
    except HarnessError as e:
        first = str(e)
        try:
            b = ctx.compile(name, srcs, flags=flags)
            ctx.notes.append("internals of Callback changed: bookkeeping is compared behaviourally only")
            return b
        except HarnessError:
            raise HarnessError(first)

def configs(tier):
    if tier == "quick":
        return [dict(emitters=1, signals=1, listeners=3, slots=1, top=4, reactions=3, nest=2),
                dict(emitters=1, signals=1, listeners=2, slots=2, top=4, reactions=2, nest=3, dup=2),
                dict(emitters=2, signals=2, listeners=2, slots=1, top=3, reactions=2, nest=3),
                dict(emitters=1, signals=2, listeners=2, slots=1, top=4, reactions=2, nest=3)]
    return [dict(emitters=1, signals=1, listeners=3, slots=1, top=5, reactions=3, nest=3),
            dict(emitters=1, signals=1, listeners=2, slots=2, top=4, reactions=3, nest=3, dup=2),
            dict(emitters=2, signals=2, listeners=2, slots=1, top=4, reactions=2, nest=3),
            dict(emitters=2, signals=1, listeners=3, slots=1, top=4, reactions=3, nest=3),
            dict(emitters=1, signals=2, listeners=2, slots=2, top=4, reactions=3, nest=4),
            dict(emitters=1, signals=1, listeners=3, slots=1, top=6, reactions=2, nest=2),
            dict(emitters=1, signals=1, listeners=3, slots=1, top=5, reactions=4, nest=3),
            dict(emitters=2, signals=2, listeners=2, slots=1, top=5, reactions=2, nest=3)]

def args_of(c):
    a = []
    for k, v in c.items():
        a += ["--" + k, str(v)]
    return a

def run(ctx):
    b = build(ctx)
    for c in configs(ctx.tier):
        ctx.run_shards(b, args_of(c), label="callback " + " ".join("%s=%s" % kv for kv in sorted(c.items())))
    # the other parameter counts: the same programs at a smaller bound, one binary per pair of signal arities
    small = dict(emitters=1, signals=2, listeners=2, slots=1, top=3 if ctx.tier == "quick" else 4, reactions=2, nest=2)
    for ar in ARITIES[1:]:
        ctx.run_shards(build(ctx, ar), args_of(small), label="callback arities %d/%d " % ar + " ".join("%s=%s" % kv for kv in sorted(small.items())))
    # one slot connected to two signals of one emitter (only possible when both signals have the same parameter list)
    shared = dict(emitters=1, signals=2, listeners=2, slots=1, top=4 if ctx.tier == "quick" else 5, reactions=2, nest=3)
    ctx.run_shards(build(ctx, (1, 1)), args_of(shared), label="callback shared slots " + " ".join("%s=%s" % kv for kv in sorted(shared.items())))
    c = ctx.counters
    cov = {"states": int(c.get("executions", 0)), "transitions": int(c.get("top_level_steps", 0) + c.get("reactions", 0)),
           "traces_validated_against_impl": int(c.get("executions", 0)),
           "slot_invocations_checked": int(c.get("slot_invocations", 0)),
           "programs_with_reentrant_action": int(c.get("programs_with_reentrant_action", 0)),
           "rule": "every program of the configuration: up to `top` top-level steps from {connect, disconnect, emit, delete listener, delete emitter} over the "
                   "configured emitters/signals/listeners/slots and, inside every slot invocation, a reaction from the same menu (at most `reactions` non-default "
                   "reactions, emission nesting <= `nest`), plus both teardown orders; the lockstep model (ordered live connections + per-emission snapshot taken at "
                   "the outermost emission of that signal) decides every invocation as it happens, missed invocations when an emission returns, invocations after "
                   "disconnect/destruction (also by ASan on the freed object), both sides' bookkeeping after every top-level step (probe emissions + internal lists) "
                   "and the allocation ledger at the end; the programs of a smaller bound are repeated for signals with 2..8 parameters (one emit / connect overload per parameter count)",
           "configurations": configs(ctx.tier),
           "explanation": "stateless exhaustive DFS over choice sequences: states = complete programs executed, transitions = actions (top-level steps and reactions) "
                          "executed on the real implementation",
           "exhaustive": not c.get("deadline_hit")}
    return ctx.finish("model_checking", cov, ["disconnect is only issued for connections that are live in the model; at most `dup` identical connections"], tags=["C12"])

def replay(ctx, rp):
    import subprocess, os
    from engine.driver import ASAN_ENV
    b = build(ctx)
    bn = rp.get("binary", "")
    if bn.startswith("callback_h_"):
        a0, a1 = bn.split("_")[2:4]
        b = build(ctx, (int(a0), int(a1)))
    choices = rp["case"].split("choices=")[1].split(" ")[0]
    args = [a for a in rp.get("args", []) if a]
    env = dict(os.environ); env.update(ASAN_ENV)
    cmd = [b] + [a for a in args if not a.startswith("--shard") and not a.startswith("--nshards")][:16] + ["--replay-case", choices]
    # drop shard arguments and their values
    clean = []; skip = False
    for a in [b] + args:
        if skip: skip = False; continue
        if a in ("--shard", "--nshards"): skip = True; continue
        clean.append(a)
    r = subprocess.run(clean + ["--replay-case", choices], env=env, stdout=subprocess.PIPE, stderr=subprocess.STDOUT, universal_newlines=True)
    print(r.stdout[-3000:])
    if "REPRODUCED" in r.stdout or r.returncode != 0:
        print("VIOLATION property=C12 replay=(replayed)")
        return 1
    return 0
