"""C10 Future / worker pool: every schedule within the preemption/deviation bounds (explorer B)."""
from checks import schedlib as SL

LIB = ["src/Signal.cpp", "src/Mutex.cpp", "src/Thread.cpp", "src/Time.cpp", "src/System.cpp", "src/Memory.cpp", "src/Debug.cpp", "src/String.cpp"]

def build(ctx):
    import checks.schedlib as S
    old = list(S.TSAN)
    try:
        S.TSAN = old + ['-DVF_FUTURE_CPP="%s"' % ctx.repo("src/Future.cpp")]
        return SL.build(ctx, "c10_sched", "c10_scen.cpp", LIB)
    finally:
        S.TSAN = old

def run(ctx):
    b = build(ctx)
    q = ctx.tier == "quick"
    pb, eb = (2, 0) if q else (2, 1)
    # variant 1 (lazy creation of the default pool: 512 volatile writes of the queue constructor are scheduling points) and
    # variant 2 (one-slot queue) have several hundred choice points per execution: one preemption (two in the thorough tier for 2)
    bounds = {0: pb, 1: 1, 2: pb, 3: pb, 4: pb, 5: pb, 6: pb, 7: pb, 8: 1, 9: pb, 10: 0} if q else {0: 3, 1: 2, 2: 3, 3: 3, 4: 3, 5: 3, 6: 3, 7: 3, 8: 2, 9: 3, 10: 1}
    jobs = []
    for v in sorted(bounds):
        jobs += SL.job(b, "future", v, bounds[v], eb, extra=["--horizon", "20000", "--spurious", "0", "--delay-bounded", "1"], shards=16)
    # fine tier: every plain (non-volatile, non-atomic) access of the library and the scenario is a scheduling point as well
    fpb = 1 if q else 2
    for v in sorted(bounds):
        # the two long sequential scenarios (F9: eight calls, F11: twenty-two calls) keep one preemption in the fine tier
        fb = 1 if v in (8, 10) else fpb
        jobs += SL.job(b, "future", v, fb, 0, extra=["--plain", "1", "--horizon", "200000", "--spurious", "0", "--delay-bounded", "1"], shards=2 if q else 16)
    ctx.run_jobs(jobs, parallel=16)
    pb = max(bounds.values())
    cov = SL.coverage(ctx, "scenarios F1-F11 on the real Future/ThreadPool (Future.cpp included into the scenario unit to install pools with queue size 1/2 and to shut the "
                           "pool down): one client with result conversion and destructor; two clients racing for the lazy pool creation; two clients on a one-slot queue "
                           "(back-pressure path); three futures started before any join; abort; the same Future started twice; clock jumps that trigger the shrink branch; "
                           "client + main on a one-slot queue with one permanent worker; growth to three workers followed by five idle periods with one call each (workers are retired one by one); an aborted call followed by a fresh start of the same Future; every start() overload (free and member functions, 0..5 parameters, with and without result) once with distinct argument values.  Every schedule with <= %d preemptions and <= %d environment deviation; "
                           "oracle: executed exactly once with the given argument, join/conversion/destructor only after the body finished, converted value, "
                           "isAborted/isFinished, deadlock/livelock verdict of the scheduler, guard allocator (call record), primitive registry (no operation on a destroyed "
                           "signal), heap balance after pool shutdown. Fine tier: the same scenarios with every plain memory access as a scheduling point, <= %d preemption(s)" % (pb, eb, fpb),
                      {"preemption_bound": pb, "deviation_bound": eb, "preemption_bound_per_variant": bounds, "fine_tier_preemption_bound": fpb})
    return ctx.finish("model_checking", cov, ["sequential consistency; processor count reported as 1 (pool maximum 3 workers)", "switches at blocking points count against the bound (delay bounding)",
                                              "started functions terminate and do not wait on other futures"],
                      tags=["C10", "deadlock", "livelock", "horizon", "primitive", "memory", "crash", "hang"])

def replay(ctx, rp):
    return SL.replay(ctx, rp, build(ctx))
