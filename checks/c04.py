"""C04 exactly-once construction/destruction, deep copies, self arguments: all eight container harnesses
re-run with the self-referential alphabet; element and key type is the registry-tracked Tracked."""
from checks import containers as K, c01, c02, c03

def all_configs(ctx, selfops):
    b1, b2, b3 = c01.builders(ctx), c02.builders(ctx), c03.builders(ctx)
    cs = c01.configs(ctx, b1, selfops) + c02.configs(ctx, b2, selfops) + c03.configs(ctx, b3, selfops)
    # the String-keyed tables carry no tracked instances: they belong to C02 only
    cs = [c for c in cs if "<String>" not in c[1]]
    return cs, (b1, b2, b3)

RULE = ("the C01-C03 history BFS (Map, MultiMap, HashMap, HashSet, PoolMap, List, Array, PoolList) with element and key type "
        "'Tracked' (instance registry: construct on a live address, destroy/assign/copy/compare a dead one; every instance owns a "
        "heap cell) plus the self-referential alphabet: a = a, swap(a,a), insert/append/prepend(self), set append/remove(self), "
        "insert(own key ref, own value ref), append(own element) and resize(n, own element) at and away from capacity boundaries, "
        "remove(own value/key ref); copy-construct then mutate the copy; after every history the containers are destroyed and the "
        "registry and the allocation ledger must be empty")

def run(ctx):
    cs, bs = all_configs(ctx, True)
    K.run_bfs_configs(ctx, cs)
    ctx.run_shards(bs[2]["seq_list"](ctx), c03.sort_args(ctx), label="List sort inputs")
    cov = K.mc_coverage(ctx, RULE)
    return ctx.finish("model_checking", cov,
                      ["self-referential operations are judged against 'argument copied first' semantics",
                       "element addresses are not required to survive assignment (re-learnt afterwards)"],
                      tags=["C04"])

def replay(ctx, rp):
    b = {}
    for m in (c01, c02, c03):
        b.update(m.builders(ctx))
    return K.replay_generic(ctx, rp, b)
