"""C08 Buffer as a byte queue with terminator: history BFS to a fix-point."""
from checks import containers as K

def builders(ctx):
    return {"buffer_h": lambda c: K.build_variant2(c, "buffer_h", ["buffer_h.cpp"], [], [c.repo("src/Memory.cpp")])}

RULE = ("BFS over histories of append/prepend (1-3 fresh bytes or the other buffer), assign (0/2/5 bytes), operator=, copy construction, "
        "resize and reserve at {0,1,size-1,size+1,cap,cap+1}, removeFront/removeBack of {1,2,size,size+1}, clear, free, swap and attach of "
        "two external ranges (full and partial) on two Buffer variables; canonical state = (owned, head-room, size, capacity, attached range "
        "and offset) of both - the fields every branch of Buffer tests; after every transition size, every byte (resize-exposed bytes wild), "
        "the zero byte after the data whenever storage is owned, window inside allocation/attached range, == / != are compared with a "
        "byte-queue reference; exactly sized heap sources and ranges under AddressSanitizer decide out-of-range accesses")

def run(ctx):
    b = builders(ctx)
    n = 6 if ctx.tier == "quick" else 16
    K.run_bfs_configs(ctx, [(b["buffer_h"](ctx), "Buffer maxsize=%d" % n, dict(maxsize=n, _big=True))])
    cov = K.mc_coverage(ctx, RULE, {"terminator_checks": ctx.counters.get("terminator_checks", 0),
                                   "states_with_attached_window_visits": ctx.counters.get("attached_states", 0)})
    return ctx.finish("model_checking", cov,
                      ["self arguments (b = b, b.append(b), b.prepend(b)) are outside the statement and not part of the alphabet",
                       "a range is attached to one buffer at a time; the library may write inside an attached range",
                       "byte values never influence Buffer's control flow (canonical state argument)"], tags=["C08"])

def replay(ctx, rp):
    return K.replay_generic(ctx, rp, builders(ctx))
