"""C03 List / Array / PoolList hold the reference sequence: history BFS to a fix-point + exhaustive sort inputs."""
from checks import containers as K

KINDS = [("seq_list", "VF_LIST", "List"), ("seq_array", "VF_ARRAY", "Array"), ("seq_pl", "VF_PL", "PoolList")]

def builders(ctx):
    r = {}
    for name, d, _ in KINDS:
        r[name] = (lambda name, d: (lambda c: K.build_variant2(c, name, ["seq_h.cpp"], [d], [c.repo("src/Memory.cpp")])))(name, d)
    return r

def configs(ctx, b, selfops=False):
    so = {"selfops": True} if selfops else {}
    q = ctx.tier == "quick"
    l, a, p = b["seq_list"](ctx), b["seq_array"](ctx), b["seq_pl"](ctx)
    cs = [(l, "List V=3 maxlen=%d" % (3 if q else 5), dict(values=3, maxlen=3 if q else 5, _big=not q, **so)),
          (l, "List V=2 maxlen=%d" % (4 if q else 7), dict(values=2, maxlen=4 if q else 7, _big=not q, **so)),
          (a, "Array maxlen=%d" % (12 if q else 28), dict(maxlen=12 if q else 28, **so)),
          (a, "Array maxlen=%d initcap=5" % (9 if q else 21), dict(maxlen=9 if q else 21, initcap=5, **so)),
          (p, "PoolList maxlen=%d" % (5 if q else 13), dict(maxlen=5 if q else 13, **so))]
    return cs

def sort_args(ctx):
    if ctx.tier == "quick":
        return ["--sortenum", "--sortlen", "7", "--sortvals", "4", "--sortperm", "8"]
    return ["--sortenum", "--sortlen", "9", "--sortvals", "4", "--sortperm", "9"]

RULE = ("BFS over histories of append / prepend / insert at every position / insert, append, prepend of the other list / remove by "
        "iterator, value, index, front, back / resize / reserve / clear / swap / copy-construct / assign / sort on two variables of the "
        "real List, Array and PoolList; canonical state = both value sequences (List), (size, capacity, storage allocated) of both "
        "variables (Array: element values never influence its control flow), sizes (PoolList); after every transition both variables are "
        "compared with a reference sequence (iteration both ways, size, isEmpty, front/back, find, ==, raw view, returned iterators and "
        "references). List::sort is additionally run on every sequence up to the stated length over 4 values and every permutation "
        "of the stated number of distinct values")

def run(ctx):
    b = builders(ctx)
    K.run_bfs_configs(ctx, configs(ctx, b))
    ctx.run_shards(b["seq_list"](ctx), sort_args(ctx), label="List sort inputs")
    cov = K.mc_coverage(ctx, RULE, {"sort_inputs": ctx.counters.get("sort_inputs", 0)})
    cov["traces_validated_against_impl"] += int(ctx.counters.get("sort_inputs", 0))
    return ctx.finish("model_checking", cov, ["element values do not influence Array/PoolList control flow (canonical state argument)",
                                              "preconditions respected: no removeFront/Back on empty containers, iterators passed are valid"],
                      tags=["C03"])

def replay(ctx, rp):
    return K.replay_generic(ctx, rp, builders(ctx))
