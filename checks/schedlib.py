"""Build / run support for explorer B (schedule exploration under the serialising scheduler)."""
import os, subprocess
from concurrent.futures import ThreadPoolExecutor
from engine.driver import HarnessError, NPROC

TSAN = ["-std=c++11", "-O1", "-g", "-DNDEBUG", "-fsanitize=thread", "--param", "tsan-distinguish-volatile=1", "-w",
        "-fno-access-control"]
PLAIN = ["-std=c++11", "-O1", "-g", "-w"]

def build(ctx, name, scenario_src, lib_sources, extra_instrumented=None):
    """library and scenario translation units: instrumented + renaming shim; runtime and driver: plain"""
    inc = ["-I" + ctx.shim_inc(), "-I" + ctx.repo("include"), "-I" + ctx.verif()]
    shim = ["-include", ctx.verif("engine/sched/shim.h")]
    jobs, objs = [], []
    def add(src, flags, tag):
        o = os.path.join(ctx.bdir, "%s.%s.%s.o" % (name, tag, os.path.basename(src)))
        objs.append(o)
        jobs.append(["g++"] + flags + inc + ["-c", src, "-o", o])
    for s in lib_sources:
        add(ctx.repo(s), TSAN + shim, "lib")
    add(ctx.verif("harness", scenario_src), TSAN + shim, "scen")
    for s in (extra_instrumented or []):
        add(s, TSAN + shim, "x")
    add(ctx.verif("engine/sched/sched_rt.cpp"), PLAIN, "rt")
    add(ctx.verif("engine/sched/sched_main.cpp"), PLAIN, "main")
    def run(cmd):
        return cmd, subprocess.run(cmd, stdout=subprocess.PIPE, stderr=subprocess.STDOUT, universal_newlines=True)
    with ThreadPoolExecutor(max_workers=NPROC) as ex:
        for cmd, r in ex.map(run, jobs):
            if r.returncode != 0:
                raise HarnessError("compile failed: %s\n%s" % (" ".join(cmd), r.stdout[-5000:]))
    out = os.path.join(ctx.bdir, name)
    r = subprocess.run(["g++"] + objs + ["-o", out, "-lpthread", "-lrt"], stdout=subprocess.PIPE, stderr=subprocess.STDOUT, universal_newlines=True)
    if r.returncode != 0:
        raise HarnessError("link failed (a TSan-ABI entry point the runtime does not provide?):\n" + r.stdout[-5000:])
    return out

def scenarios(binary):
    r = subprocess.run([binary, "--list"], stdout=subprocess.PIPE, universal_newlines=True)
    out = []
    for l in r.stdout.split("\n"):
        p = l.split()
        if len(p) == 3:
            out.append((p[1], int(p[2])))
    return out

def job(binary, scen, variant, pb, eb, extra=None, shards=1):
    jobs = []
    for s in range(shards):
        a = ["--scenario", scen, "--variant", str(variant), "--pb", str(pb), "--eb", str(eb)] + (extra or [])
        if shards > 1:
            a += ["--shard", str(s), "--nshards", str(shards)]
        jobs.append((binary, a, "%s v%d pb=%d eb=%d" % (scen, variant, pb, eb)))
    return jobs

def coverage(ctx, rule, extra=None):
    c = ctx.counters
    cov = {"states": int(c.get("executions", 0)), "transitions": int(c.get("scheduling_points", 0)),
           "traces_validated_against_impl": int(c.get("executions", 0)),
           "scenario_runs": int(c.get("scenario_runs", 0)),
           "distinct_outcomes_summed_over_scenarios": int(c.get("distinct_outcomes_sum", 0)),
           "max_scheduling_points_per_execution": int(c.get("max:steps_per_execution", 0)),
           "max_choice_points_per_execution": int(c.get("max:choice_points", 0)),
           "spurious_wakeups_delivered": int(c.get("spurious_wakeups_delivered", 0)),
           "timeouts_delivered": int(c.get("timeouts_delivered", 0)),
           "rule": rule,
           "explanation": "stateless DFS over the schedules of the real code under a serialising scheduler: states = complete executions "
                          "(distinct choice sequences), transitions = scheduling points (volatile accesses, atomic operations, redirected "
                          "pthread/semaphore/clock calls) executed; every execution runs the implementation itself",
           "exhaustive": not c.get("deadline_hit") and not c.get("execution_cap_hit") and not c.get("capped_violations")}
    if extra:
        cov.update(extra)
    return cov

def replay(ctx, rp, binary):
    import re
    from engine.driver import ASAN_ENV
    case = rp["case"]
    m = re.search(r"scenario=(\S+) variant=(\d+) pb=(\d+) eb=(\d+)(.*?) choices=([\d,]*)", case)
    if not m:
        print("cannot parse replay case"); return 2
    cmd = [binary, "--scenario", m.group(1), "--variant", m.group(2), "--pb", m.group(3), "--eb", m.group(4), "--replay-case", m.group(6) or "0"]
    args = rp.get("args") or []
    for k in ("--plain", "--processors", "--spurious", "--horizon", "--delay-bounded"):
        if k in args:
            cmd += [k, args[args.index(k) + 1]]
    print("replay:", " ".join(cmd))
    r = subprocess.run(cmd)
    if r.returncode == 1:
        print("VIOLATION property=%s replay=(replayed)" % ctx.id)
    return r.returncode
