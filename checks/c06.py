"""C06 String as an independent byte-string value: depth-bounded history BFS from several initial representation/sharing states."""
from checks import containers as K

SRC = ["src/String.cpp", "src/Memory.cpp", "src/Debug.cpp"]

def builders(ctx):
    return {"string_h": lambda c: K.build_variant2(c, "string_h", ["string_h.cpp"], [], [c.repo(s) for s in SRC])}

def configs(ctx, b):
    s = b["string_h"](ctx)
    if ctx.tier == "quick":
        plan = [(0, 3, 5)] + [(i, 4, 4) for i in range(1, 6)]
    else:
        plan = [(0, 3, 6), (0, 4, 5)] + [(i, 4, 5) for i in range(1, 6)] + [(i, 6, 4) for i in (1, 3, 5)]
    return [(s, "String init=%d maxlen=%d depth=%d" % (i, ml, d), dict(init=i, maxlen=ml, depth=d, _big=True)) for i, ml, d in plan]

RULE = ("BFS over histories on three String variables (operations on s0 with arguments from s0/s1/s2, variable rotation): construction "
        "from literal / (ptr,len) incl. embedded NUL / (n,c) / capacity, attach of a terminated and an unterminated external range, copy "
        "construction, assignment (incl. self), append/prepend of variables (incl. self), of buffers and chars, clear, detach, resize and "
        "reserve at {0,len-1,len,len+1,cap,cap+1}, write through char*, replace(char,char), replace(str,str) with literal and variable "
        "needles, case mapping, trim, substr, printf, join, and the C-string view with compare/find/token/split/toInt; started from the "
        "empty state and from five non-initial states (literals, attached ranges, three sharers of one block, slack + shared, mixed); "
        "canonical state = per variable representation, sharing group, reference count, slack, terminator, content; after every transition "
        "length, bytes, isEmpty, ==/!=, startsWith/endsWith, find(char) of every variable are compared with a std::string-like reference, "
        "literals and attached ranges must be byte-identical to their pristine copies, reference counts must equal the number of sharers")

def build_sizes(ctx):
    return ctx.compile("string_sizes_h", [ctx.verif("harness/string_sizes_h.cpp")] + [ctx.repo(s) for s in SRC])

def run(ctx):
    b = builders(ctx)
    K.run_bfs_configs(ctx, configs(ctx, b))
    n = 300 if ctx.tier == "quick" else 1500
    ctx.run_shards(build_sizes(ctx), ["--len", str(n)], nshards=4, label="String size boundaries")
    cov = K.mc_coverage(ctx, RULE + "; size boundaries: printf / fromPrintf / append / prepend / resize / reserve / repeated append(char) with every operand length 0..%d on five "
                                   "initial representations (empty, owned, owned with slack, shared with a copy, literal), exactly sized operands under ASan; case mapping of every byte value "
                                   "(character and String forms, source of a copy untouched)" % n,
                        {"size_cases": ctx.counters.get("size_cases", 0)})
    cov["traces_validated_against_impl"] += int(ctx.counters.get("size_cases", 0))
    cov["exhaustive"] = not ctx.counters.get("deadline_hit") and not ctx.counters.get("state_cap_hit")
    cov["exhaustive_meaning"] = "every history up to the stated depth from each initial state (the space is infinite; depth bounded by design)"
    return ctx.finish("model_checking", cov,
                      ["C-string based operations (replace, case mapping, trim, compare, find(str), token, split, printf %s) get NUL-free operands",
                       "empty needle for replace and out-of-range start for token are outside the statement and not in the alphabet",
                       "bytes exposed by a growing resize are unspecified (adopted when first observed)"], tags=["C06"])

def replay(ctx, rp):
    if rp.get("binary", "").startswith("string_sizes"):
        ctx.run_shards(build_sizes(ctx), ["--len", "300"], nshards=4, label="String size boundaries")
        return ctx.finish("model_checking", {"states": 1, "transitions": 1, "traces_validated_against_impl": 1, "rule": "replay of the size-boundary enumeration"}, tags=["C06"])
    return K.replay_generic(ctx, rp, builders(ctx))
