"""C09 shared payloads released exactly once: sequential handle histories (explorer A: String/Variant sharing invariants, RefCount::Ptr,
Xml::Variant) and concurrent scenarios under every bounded schedule (explorer B)."""
from checks import schedlib as SL, containers as K, handles, c06, c07

LIB = ["src/String.cpp", "src/Variant.cpp", "src/Memory.cpp", "src/Debug.cpp", "src/Thread.cpp", "src/Mutex.cpp", "src/Signal.cpp",
       "src/Document/Xml.cpp", "src/Error.cpp", "src/File.cpp", "src/Directory.cpp", "src/Time.cpp"]

def build(ctx):
    return SL.build(ctx, "c09_sched", "c09_scen.cpp", LIB)

def run(ctx):
    q = ctx.tier == "quick"
    # sequential part
    handles.run_ptr(ctx)
    handles.run_xml(ctx)
    cs = c06.configs(ctx, c06.builders(ctx))[:2 if q else 4] + c07.configs(ctx, c07.builders(ctx))[:2 if q else 4]
    K.run_bfs_configs(ctx, cs)
    seq_states, seq_trans = int(ctx.counters.get("states", 0)), int(ctx.counters.get("transitions", 0))
    # concurrent part
    b = build(ctx)
    pb, eb = (2, 0) if q else (3, 0)
    jobs = []
    for name, variants in SL.scenarios(b):
        for v in range(variants):
            jobs += SL.job(b, name, v, pb, eb, shards=4 if q else 16)
            jobs += SL.job(b, name, v, 1, 0, extra=["--plain", "1", "--horizon", "60000"], shards=4)   # fine tier: plain accesses are scheduling points too
    ctx.run_jobs(jobs, parallel=16)
    cov = SL.coverage(ctx, "concurrent: 3 threads owning distinct handles to one payload created by the main thread (String: copy/drop, append, clear, attach, join, assignment from a counted and from an uncounted String, C-string view, write through "
                           "char*, reassign; Variant holding a list: copy/drop, read, mutable access + append; RefCount::Ptr: copy/assign/drop, assign null, swap; "
                           "Xml::Variant: copy/assign, read, toElement() mutation); every schedule with <= %d preemptions at volatile/atomic/thread operations, and every "
                           "schedule with <= 1 preemption when every plain memory access is a scheduling point as well; oracle: schedule-independent final contents, "
                           "guard-page allocator (use after free, double free), heap balance, destructor count. sequential: BFS over handle histories (RefCount::Ptr, "
                           "Xml::Variant) and the String/Variant history BFS of C06/C07 with the reference-count == number-of-sharers invariant" % pb,
                      {"preemption_bound": pb, "sequential_states": seq_states, "sequential_transitions": seq_trans})
    cov["states"] += seq_states; cov["transitions"] += seq_trans
    return ctx.finish("model_checking", cov, ["sequential consistency; weak-memory effects are not modelled",
                                              "handles are thread-private; only the payload is shared"],
                      tags=["C09", "deadlock", "livelock", "horizon", "primitive", "memory"])

def replay(ctx, rp):
    if rp.get("binary", "").startswith("c09_sched"):
        return SL.replay(ctx, rp, build(ctx))
    b = {}
    b.update(handles.builders(ctx)); b.update(c06.builders(ctx)); b.update(c07.builders(ctx))
    return K.replay_generic(ctx, rp, b)
