"""C20 child processes and option parsing: exhaustive enumeration (explorer D) of argument vectors against glibc getopt_long,
command lines and launch configurations against a helper child."""
import os, subprocess
from engine.driver import HarnessError
SRC = ["src/Process.cpp", "src/String.cpp", "src/Memory.cpp", "src/Debug.cpp", "src/File.cpp", "src/Directory.cpp", "src/Time.cpp", "src/Error.cpp",
       "src/Thread.cpp", "src/Mutex.cpp", "src/Signal.cpp", "src/Monitor.cpp", "src/Semaphore.cpp"]

def build(ctx):
    child = os.path.join(ctx.bdir, "c20_child")
    r = subprocess.run(["gcc", "-O1", ctx.verif("harness/c20_child.c"), "-o", child], stdout=subprocess.PIPE, stderr=subprocess.STDOUT, universal_newlines=True)
    if r.returncode != 0:
        raise HarnessError("child helper does not build: " + r.stdout)
    return ctx.compile("process_h", [ctx.verif("harness/process_h.cpp")] + [ctx.repo(s) for s in SRC]), child

def run(ctx):
    q = ctx.tier == "quick"
    b, child = build(ctx)
    ch = ["--child", child]
    ctx.run_shards(b, ["--mode", "cmdline", "--len", "3"] + ch, label="command lines")
    ctx.run_shards(b, ["--mode", "launch"] + ch, label="launch matrix")
    ctx.run_shards(b, ["--mode", "args", "--len", "4" if q else "6"] + ch, label="argument vectors")
    c = ctx.counters
    ev = sum(c.get(k, 0) for k in ("argument_vectors", "command_lines", "launches", "io_runs", "exit_code_runs", "two_process_runs", "reuse_runs", "late_writer_runs"))
    cov = {"evaluations": int(ev), "distinct_nontrivial": int(c.get("distinct_nontrivial", 0)),
           "rule": "Arguments: every argument vector of <= %d strings over {-a -ab -abo -oX -o -abc - -- --aa --out=X --out --opt --opt=X --zz --aa=X X '' -ba --out= --o=X --=X} "
                   "(each string and the vector in exactly sized heap blocks under ASan) against glibc getopt_long in return-in-order mode (\"-:abo:\", exact long names) "
                   "mapped to (character, argument) sequences; command lines: every line of <= 3 words over {a a\\\\b \"\" \"a b\" \"a\\\\\"b\" a\"b c\"d \"a\\\\b\"} through "
                   "Process::open(commandLine) against a helper child that echoes its argv, with a reference splitter and a watchdog; launch: 5 argument vectors x "
                   "2 overloads x 3 environments, all 7 non-empty stream combinations (the child reports on stdout, on stderr, or through its exit code) x 6 payload sizes around the pipe capacity (stdin digest, stdout/stderr to EOF), exit codes 0..255; 16 overlapping pairs of processes (second opened before / after close(stdin) of the first, first joined / killed / destroyed, either finishing first); 36 two-child histories on one Process object (3 x 3 stream sets, first child joined / killed, stdin closed or not); 6 late-writer runs (join entered before the child writes)"
                   % (4 if q else 6),
           "exhaustive": True}
    return ctx.finish("exploration", cov, ["GNU-only getopt features (prefix matching of long names, short options with optional arguments) are outside the statement",
                                          "the sandbox provides vfork/exec; the helper child is built from /verif"], tags=["C20"])

def replay(ctx, rp):
    return run(ctx)
