"""C19 paths, files, directories: exhaustive enumeration (explorer D) of path strings, relative-path pairs, file operation
histories on a scratch directory, Directory::create arguments and directory trees for recursive unlink."""
import os, shutil
SRC = ["src/File.cpp", "src/Directory.cpp", "src/String.cpp", "src/Memory.cpp", "src/Debug.cpp", "src/Time.cpp"]

def build(ctx):
    return ctx.compile("file_h", [ctx.verif("harness/file_h.cpp")] + [ctx.repo(s) for s in SRC])

def run(ctx):
    q = ctx.tier == "quick"
    b = build(ctx)
    # a disk-backed file system on purpose: some failure paths (copy of a directory) depend on what lseek/sendfile
    # do on directories, which tmpfs answers differently
    scratch = os.path.join(ctx.bdir, "vf_c19_%d" % os.getpid())
    os.makedirs(scratch, exist_ok=True)
    fast = "/dev/shm" if os.path.isdir("/dev/shm") and os.access("/dev/shm", os.W_OK) else ctx.bdir
    fast = os.path.join(fast, "vf_c19_%d" % os.getpid())
    os.makedirs(fast, exist_ok=True)
    try:
        sc = ["--scratch", fast]
        ctx.run_shards(b, ["--mode", "paths", "--len", "4" if q else "5"] + sc, label="path functions")
        ctx.run_shards(b, ["--mode", "relpath", "--len", "3"] + sc, label="getRelativePath pairs")
        ctx.run_shards(b, ["--mode", "mkdirs", "--len", "3"] + sc, label="Directory::create")
        ctx.run_shards(b, ["--mode", "rmtrees", "--len", "4" if q else "5"] + sc, label="recursive unlink")
        ctx.run_shards(b, ["--mode", "filehist", "--len", "4" if q else "5", "--scratch", scratch], label="file histories")
    finally:
        shutil.rmtree(scratch, ignore_errors=True)
        shutil.rmtree(fast, ignore_errors=True)
    c = ctx.counters
    ev = sum(c.get(k, 0) for k in ("path_inputs", "relpath_pairs", "file_histories", "mkdir_cases", "rmtree_cases"))
    cov = {"evaluations": int(ev), "distinct_nontrivial": int(c.get("distinct_nontrivial", 0)),
           "rule": "paths: every path of <= %d components over {a b . .. a.b .a a. a.b.c}, every separator choice in {/ \\}, optional leading/trailing "
                   "separator: simplifyPath idempotent and lexically equivalent (reference: absolute flag + component list), directory+base recompose, stem/"
                   "extension rules; getRelativePath: all pairs of paths of <= 3 components over {a b . .. ab}, both relative or both absolute, for which a lexical "
                   "answer exists; file histories: every sequence of <= %d operations over 24 operations (5 open modes, write, seek, readAll, size, close, copy/"
                   "rename with and without failIfExists incl. missing and directory sources, unlink) on a scratch directory against a model of names -> file "
                   "objects + handle position, directory listing compared after every step and unchanged after failed steps; Directory::create for every "
                   "path of <= 3 components over {a b . .. f(existing file)} relative/absolute, with/without trailing separator; recursive unlink of every tree "
                   "with <= %d nodes of kinds {file, dir, symlink to outside dir, to outside file, dangling} with an outside sentinel tree"
                   % (4 if q else 5, 4 if q else 5, 4 if q else 5),
           "exhaustive": True, "file_operations": int(c.get("file_operations", 0)),
           "histories_skipped_for_api_preconditions": int(c.get("file_histories_skipped_precondition", 0))}
    return ctx.finish("exploration", cov,
                      ["multi-dot base names and names ending in a dot are ambiguous for stem/extension and not judged for recomposition",
                       "getRelativePath pairs whose answer would need the name of a directory above 'from' are excluded",
                       "a closed File is not read/written/seeked (API precondition); the scratch file system is tmpfs or the build directory"], tags=["C19"])

def replay(ctx, rp):
    return run(ctx)
