"""C02 HashMap / HashSet / PoolMap as insertion-ordered unique-key tables: history BFS to a fix-point
for every (capacity x hash mode) configuration."""
from checks import containers as K

KINDS = [("hash_hm", "VF_HM", "HashMap"), ("hash_hs", "VF_HS", "HashSet"), ("hash_pm", "VF_PM", "PoolMap")]

def builders(ctx):
    r = {"hashstr_h": lambda c: K.build_variant2(c, "hashstr_h", ["hashstr_h.cpp"], [], [c.repo("src/Memory.cpp"), c.repo("src/String.cpp"), c.repo("src/Debug.cpp")])}
    for name, d, _ in KINDS:
        r[name] = (lambda name, d: (lambda c: K.build_variant2(c, name, ["hash_h.cpp"], [d], [c.repo("src/Memory.cpp")])))(name, d)
    return r

def configs(ctx, b, selfops=False):
    so = {"selfops": True} if selfops else {}
    cs = []
    quick = ctx.tier == "quick"
    hs = b["hashstr_h"](ctx)
    for cap in (1, 2, 7):
        cs.append((hs, "HashMap<String>/HashSet<String> colliding keys cap=%d" % cap, dict(capacity=cap)))
    for name, d, title in KINDS:
        binary = b[name](ctx)
        for cap in (1, 2, 3, 0):
            for h in (0, 1, 2):
                if cap == 1 and h != 0:
                    continue          # one bucket: every hash mode collides identically
                k2 = 3
                cs.append((binary, "%s 2vars K=%d cap=%s hash=%d" % (title, k2, cap or 500, h),
                           dict(keys=k2, capacity=cap, hash=h, **so)))
                k1 = 4 if quick else 5
                if quick and not (h == 0 and cap in (1, 2)):
                    continue
                cs.append((binary, "%s 1var K=%d cap=%s hash=%d" % (title, k1, cap or 500, h),
                           dict(keys=k1, capacity=cap, hash=h, onevar=True, **so)))
        # the two variables differ in capacity: swap, assignment and set operations move content between tables of different width
        for cap, capB in ((1, 3), (3, 1), (2, 0)):
            cs.append((binary, "%s 2vars K=3 cap=%s/%s hash=0" % (title, cap, capB or 500), dict(keys=3, capacity=cap, capacityB=capB, hash=0, **so)))
        if not quick:
            cs.append((binary, "%s 2vars K=4 cap=2 hash=0" % title, dict(keys=4, capacity=2, hash=0, _big=True, **so)))
    return cs

RULE = ("BFS over histories of append / prepend / insert at every position / remove by key, iterator, front, back / clear / swap / "
        "copy-construct / assign / set append / set remove on two variables of the real HashMap, HashSet and PoolMap, for every "
        "table capacity in {1,2,3,500} (both variables alike, and the pairs 1/3, 3/1, 2/500) and hash mode in {identity, constant, mod 2}; de-duplicated on (ordered keys of A and B, "
        "capacity, per-bucket chain order); after every transition both variables are compared with an insertion-ordered "
        "reference (iteration both ways, size, isEmpty, front/back, find/contains of every key, ==/!=, returned iterators/references)")

def run(ctx):
    b = builders(ctx)
    K.run_bfs_configs(ctx, configs(ctx, b))
    cov = K.mc_coverage(ctx, RULE)
    return ctx.finish("model_checking", cov, ["key universe 0..K-1, K as listed per configuration",
                                              "String keys: five keys, three of which collide under hash(const String&) (same length, first, middle and last byte), capacities 1, 2, 7"],
                      tags=["C02"])

def replay(ctx, rp):
    return K.replay_generic(ctx, rp, builders(ctx))
