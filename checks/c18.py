"""C18 codecs and numeric conversions: exhaustive input enumeration (explorer D)."""
SRC = ["src/String.cpp", "src/Memory.cpp", "src/Debug.cpp"]

def build(ctx):
    return ctx.compile("codec_h", [ctx.verif("harness/codec_h.cpp")] + [ctx.repo(s) for s in SRC])

def run(ctx):
    q = ctx.tier == "quick"
    b = build(ctx)
    ctx.run_shards(b, ["--mode", "ints"], nshards=1, label="integer conversions")
    ctx.run_shards(b, ["--mode", "hex"], nshards=4, label="fromHex")
    ctx.run_shards(b, ["--mode", "base64", "--garbage8", "6" if q else "9"], label="fromBase64")
    ctx.run_shards(b, ["--mode", "codepoints"], label="code points")
    ctx.run_shards(b, ["--mode", "bytes", "--full", "3", "--class", "5" if q else "6"], label="decoder byte strings")
    c = ctx.counters
    ev = sum(c.get(k, 0) for k in ("codepoints", "byte_strings", "int_values", "hex_inputs", "base64_roundtrips", "base64_arbitrary"))
    cov = {"evaluations": int(ev), "distinct_nontrivial": int(c.get("distinct_nontrivial", 0)),
           "rule": "all 1,114,112 code points (plus 8192 above the range): toString vs a reference UTF-8 encoder, fromString inverse, length, isValid, truncated copies; "
                   "every byte string of length <= 3 and of length 4..%d over the class alphabet {00 41 7F 80 BF C0 C2 DF E0 EF F0 F4 F7 F8 FF} in an exactly sized heap "
                   "block (length/isValid/fromString; decoded value and length of well-formed first sequences vs a strict reference decoder); integer conversions for "
                   "all values -32768..65535, +-2^k, +-2^k+-1 and type limits (text vs printf, parse back); fromHex for all inputs <= 2 bytes and every length 3..300 with three contents; fromBase64: "
                   "decode(reference encode(b)) == b for all b of length <= 2 and length 3..6 over {00 3E 3F FB FF 'A'}, every 4-symbol string over 20 symbols and every "
                   "8-symbol string over %d symbols incl. bytes >= 0x80, every byte value at every position of two well-formed groups and every pair of byte values in the "
                   "last two positions, every string of 0..9 symbols over {Q = - /} and runs of 10..70 valid symbols with six tails (every input length, not only whole groups), under ASan + bounds sanitizer" % (5 if q else 6, 6 if q else 9),
           "exhaustive": True}
    return ctx.finish("exploration", cov, ["surrogate code points are encoded as three bytes (as the library documents)",
                                          "decoder results for malformed / overlong sequences are not judged, only memory safety"], tags=["C18"])

def replay(ctx, rp):
    b = build(ctx)
    ctx.run_shards(b, [a for a in (rp.get("args") or ["--mode", "base64"]) if not a.startswith("--shard")][:6])
    return ctx.finish("exploration", {"evaluations": 1, "distinct_nontrivial": 2, "rule": "replay"}, tags=["C18"])
