"""C14 the event loop honours timers, removals, readiness and interrupts: explorer C (sequential programs with re-entrant
reactions and environment deviations) + explorer B (interrupt() from another thread racing with run())."""
import os
from checks import c13, schedlib as SL

def build_loop(ctx):
    return c13.build(ctx, harness="server_loop_h.cpp", name="server_loop_h")

def build_tcp(ctx):
    return c13.build(ctx, harness="server_tcp_h.cpp", name="server_tcp_h")

def build_threaded(ctx):
    return SL.build(ctx, "c14_sched", "c14_scen.cpp", ["src/Socket/Server.cpp", "src/Socket/Socket.cpp", "src/Time.cpp", "src/Future.cpp", "src/Signal.cpp", "src/Thread.cpp",
                                                       "src/Mutex.cpp", "src/String.cpp", "src/Memory.cpp", "src/Debug.cpp", "src/Error.cpp", "src/System.cpp"])

def run(ctx):
    q = ctx.tier == "quick"
    b = build_loop(ctx)
    cfgs = [(3, 2, 1), (4, 1, 1)] if q else [(4, 2, 1), (3, 2, 2), (5, 1, 1)]
    for turns, reactions, eb in cfgs:
        ctx.run_shards(b, ["--turns", str(turns), "--reactions", str(reactions), "--eb", str(eb)], label="server loop turns=%d reactions=%d eb=%d" % (turns, reactions, eb))
    m = c13.build_multi(ctx)
    mt, meb, mrb = (3, 2, 1) if q else (4, 2, 1)
    ctx.run_shards(m, ["--prop", "C14", "--turns", str(mt), "--eb", str(meb), "--rb", str(mrb)], label="two clients turns=%d eb=%d rb=%d" % (mt, meb, mrb))
    tcp = build_tcp(ctx)
    tcfgs = [(4, 1), (3, 2)] if q else [(5, 1), (4, 2), (3, 3)]
    for turns, reactions in tcfgs:
        ctx.run_shards(tcp, ["--turns", str(turns), "--reactions", str(reactions)], label="server tcp turns=%d reactions=%d" % (turns, reactions))
    seq_exec = int(ctx.counters.get("executions", 0))
    seq_trans = int(ctx.counters.get("app_turns", 0) + ctx.counters.get("reactions", 0) + ctx.counters.get("timer_activations", 0) + ctx.counters.get("onRead", 0))
    # threaded part: interrupt() from a second thread
    t = build_threaded(ctx)
    pb = 2 if q else 3
    jobs = []
    for name, variants in SL.scenarios(t):
        for v in range(variants):
            jobs += SL.job(t, name, v, pb, 0, shards=4)
    ctx.run_jobs(jobs, parallel=16)
    c = ctx.counters
    cov = SL.coverage(ctx, "sequential: every program of up to %s application turns (7 ms application timer) and up to %s re-entrant reactions inside timer / onRead callbacks over "
                           "{create/remove timer 0,1 (10 ms, equal due times) and 2 (25 ms), create/remove client 0,1 (socket pairs), peer writes, peer closes, suspend, resume, interrupt}, "
                           "with up to %s environment deviations (clock overshoot by 1 ms, jump over several intervals, reversed readiness order), second run() after an interrupt; "
                           "oracle: activation never before due and in due order within a pass, activation count == floor((now - t0)/interval) at every poll, no callback after remove() "
                           "(callback objects are freed on removal: ASan), readable / closed clients dispatched before the loop idles, onClosed exactly once, no onRead while "
                           "suspended, run() returns only after interrupt() and within 3 polls of it. two clients with send backlogs (%d turns, <= %d send deviations, <= %d reactions): "
                           "onRead / onWrite of one client suspends, resumes or removes the other while read|write events for both are buffered by the same poll round; oracle: only "
                           "event kinds the client is registered for, nothing after remove(). listeners and establishers over real TCP on the loopback interface of a private network "
                           "namespace (%s turns / %s reactions): {listen, remove listener, a peer connects, establish to the listening / to a closed port, remove establisher, peer writes, "
                           "remove client, interrupt} as turns and as reactions inside onAccepted / onConnected / onAbolished / onRead, each new client accepted or refused by the "
                           "application; oracle: no callback after remove() (callback objects freed: ASan), every connection waiting at a live listener is accepted before the loop idles "
                           "and none twice, the peer address is reported, every establisher gets exactly one of onConnected / onAbolished (connected iff something listened), data sent "
                           "to an accepted client is dispatched. threaded: run() (once or twice) against interrupt() (once or twice) from a "
                           "second thread with the event descriptor and epoll_wait modelled by the scheduler, every schedule with <= %d preemptions"
                           % ("/".join(str(x[0]) for x in cfgs), "/".join(str(x[1]) for x in cfgs), "/".join(str(x[2]) for x in cfgs), mt, meb, mrb, "/".join(str(x[0]) for x in tcfgs), "/".join(str(x[1]) for x in tcfgs), pb),
                      {"sequential_executions": seq_exec, "sequential_transitions": seq_trans, "tcp_part_explored": not ctx.counters.get("namespace_unavailable"),
                       "tcp_settle_waits": int(ctx.counters.get("settle_waits", 0))})
    cov["executions_with_colliding_client_addresses"] = int(ctx.counters.get("colliding_client_addresses", 0))
    cov["states"] += 0
    cov["transitions"] += seq_trans
    return ctx.finish("model_checking", cov, ["real kernel socket-pair, loopback TCP and epoll readiness in the sequential parts; the TCP part needs the privilege to create a network namespace and reports tcp_part_explored=false without it; host-name resolution runs against a getaddrinfo model that knows no name (every connect(host) ends in onAbolished)",
                                              "a callback that removes a client hands back no callback object; zero timer intervals are excluded"],
                      tags=["C14", "deadlock", "livelock", "horizon", "primitive", "memory"])

def replay(ctx, rp):
    if rp.get("binary", "").startswith("c14_sched"):
        return SL.replay(ctx, rp, build_threaded(ctx))
    import subprocess
    from engine.driver import ASAN_ENV
    bn = rp.get("binary", "")
    b = c13.build_multi(ctx) if bn.startswith("server_multi") else build_tcp(ctx) if bn.startswith("server_tcp") else build_loop(ctx)
    choices = rp["case"].split("choices=")[1].split(" ")[0]
    clean = []; skip = False
    for a in rp.get("args", []):
        if skip: skip = False; continue
        if a in ("--shard", "--nshards"): skip = True; continue
        clean.append(a)
    env = dict(os.environ); env.update(ASAN_ENV)
    r = subprocess.run([b] + clean + ["--replay-case", choices], env=env, stdout=subprocess.PIPE, stderr=subprocess.STDOUT, universal_newlines=True)
    print(r.stdout[-3000:])
    if "REPRODUCED" in r.stdout or r.returncode != 0:
        print("VIOLATION property=C14 replay=(replayed)"); return 1
    return 0
