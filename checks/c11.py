"""C11 Mutex / Semaphore / Signal / Monitor / Thread: every schedule within the preemption/deviation bounds."""
from checks import schedlib as SL

LIB = ["src/Mutex.cpp", "src/Semaphore.cpp", "src/Signal.cpp", "src/Monitor.cpp", "src/Thread.cpp"]

def build(ctx):
    return SL.build(ctx, "c11_sched", "c11_scen.cpp", LIB)

def run(ctx):
    b = build(ctx)
    pb, eb = (2, 1) if ctx.tier == "quick" else (3, 2)
    jobs = []
    for name, variants in SL.scenarios(b):
        for v in range(variants):
            if name == "deadline":
                jobs += SL.job(b, name, v, 0, 0)
            else:
                jobs += SL.job(b, name, v, pb, eb, shards=2 if ctx.tier == "quick" else 16)
    ctx.run_jobs(jobs, parallel=16)
    cov = SL.coverage(ctx, "scenarios of 2-4 threads on one primitive (mutex: contenders, recursive owner, tryLock, also on Mutex objects with static storage duration constructed before / after the library's own statics; semaphore: waiters/signalers with wait, tryWait, "
                           "timed wait; signal: waiters, setter, resetter, timed waits; monitor: waiter + set after lock, timed waiters, no set; thread: join result, "
                           "double start, destructor join, the same Thread object started again after join; timed-wait deadline arithmetic for start-nsec in {0, 999000000, 999999999} x timeout in {0,1,999,1000,"
                           "1001,2500,4294967,4294968,4295000} ms (the last three around 2^32 microseconds) on Signal/Monitor/Semaphore); every schedule with <= %d preemptions and <= %d environment deviations (spurious condition "
                           "wake-up, timeout firing early in the schedule, sem_wait / sem_timedwait interrupted with EINTR while they would block); time advances to the earliest deadline when nobody can run; deadlock = a thread stays "
                           "blocked forever" % (pb, eb), {"preemption_bound": pb, "deviation_bound": eb})
    return ctx.finish("model_checking", cov,
                      ["the scheduler models POSIX mutex/condition/semaphore/thread semantics (attribute types honoured, EINVAL for invalid abstime); sequential consistency",
                       "plain (non-volatile) accesses are not scheduling points in this tier"], tags=["C11", "deadlock", "livelock", "horizon", "primitive", "memory"])

def replay(ctx, rp):
    return SL.replay(ctx, rp, build(ctx))
