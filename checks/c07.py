"""C07 Variant keeps the last assigned value with independent lazy copies: depth-bounded history BFS."""
from checks import containers as K

SRC = ["src/Variant.cpp", "src/String.cpp", "src/Memory.cpp", "src/Debug.cpp"]

def builders(ctx):
    return {"variant_h": lambda c: K.build_variant2(c, "variant_h", ["variant_h.cpp"], [], [c.repo(s) for s in SRC])}

def configs(ctx, b):
    s = b["variant_h"](ctx)
    if ctx.tier == "quick":
        plan = [(0, 5, 4), (1, 6, 3), (2, 6, 3), (3, 6, 3)]
    else:
        plan = [(0, 5, 7), (1, 7, 6), (2, 7, 6), (3, 7, 6)]
    return [(s, "Variant init=%d maxnodes=%d depth=%d" % (i, mn, d), dict(init=i, maxnodes=mn, depth=d, _big=True)) for i, mn, d in plan]

RULE = ("BFS over histories on three Variant variables: assignment of null/bool/int/uint/int64/uint64/double boundary values, strings "
        "('', '12', '-3', 'abc', '1.5', '0', 'false'), list/array/map literals up to nesting 2, typed container assignment, v0 = vj, copy "
        "construction, swap (incl. self), clear, mutable access followed by a modification (toString().append, toList().append/removeFront/"
        "front()=x, nested toList().front().toList().append, toArray().append, toMap().append/remove), mutable access alone, and "
        "v0 = v0.toList().front(); started from the null state and from three shared-payload states; after every transition getType, isNull, "
        "every to* conversion (documented C coercions, atoi/strtoul/atoll/strtoull/atof, String::toBool), the full nested structure of every "
        "variable and equality with every unmodified copy are compared with a value-tree reference; reference counts must equal the number of "
        "handles (incl. nested ones) and the allocation ledger must be empty at the end")

def run(ctx):
    b = builders(ctx)
    K.run_bfs_configs(ctx, configs(ctx, b))
    cov = K.mc_coverage(ctx, RULE)
    cov["exhaustive"] = not ctx.counters.get("deadline_hit") and not ctx.counters.get("state_cap_hit")
    cov["exhaustive_meaning"] = "every history up to the stated depth from each initial state (the space is infinite; depth bounded by design)"
    return ctx.finish("model_checking", cov,
                      ["floating values other than NaN; doubles within the range of the integer casts",
                       "equality is only required between a Variant and its unmodified copies (version bookkeeping in the harness)",
                       "inserting a Variant into its own payload (v.toList().append(v)) is user-level aliasing outside the statement"],
                      tags=["C07"])

def replay(ctx, rp):
    return K.replay_generic(ctx, rp, builders(ctx))
