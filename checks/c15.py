"""C15 JSON: exhaustive input enumeration (explorer D): token strings for parse totality/safety/error position,
value trees for the round trip, symbol strings for stripComments."""
SRC = ["src/Document/Json.cpp", "src/Variant.cpp", "src/String.cpp", "src/Memory.cpp", "src/Debug.cpp", "src/Error.cpp"]

def build(ctx):
    return ctx.compile("json_h", [ctx.verif("harness/json_h.cpp")] + [ctx.repo(s) for s in SRC])

def params(tier):
    return dict(parse_len=5, nodes=4, strip_len=8, reuse=(2, 3)) if tier == "quick" else dict(parse_len=6, nodes=5, strip_len=10, reuse=(3, 3))

def run(ctx):
    p = params(ctx.tier)
    b = build(ctx)
    ctx.run_shards(b, ["--mode", "deep"], nshards=4, label="json deep")
    ctx.run_shards(b, ["--mode", "round", "--nodes", str(p["nodes"])], label="json roundtrip")
    ctx.run_shards(b, ["--mode", "strip", "--len", str(p["strip_len"])], label="json stripComments")
    ctx.run_shards(b, ["--mode", "parse", "--len", str(p["parse_len"]), "--preflen", str(p["parse_len"] - 1)], label="json parse")
    ctx.run_shards(b, ["--mode", "reuse", "--len", str(p["reuse"][0]), "--len2", str(p["reuse"][1])], label="json parser reuse")
    c = ctx.counters
    ev = sum(c.get(k, 0) for k in ("parse_inputs", "deep_inputs", "roundtrip_trees", "strip_inputs"))
    cov = {"evaluations": int(ev), "distinct_nontrivial": int(c.get("distinct_nontrivial", 0)),
           "rule": "parse: every string of <= %d tokens over a 33-token alphabet ({ } [ ] , : \" \\ u d 0 a f 1 - . e / * SP LF CR 0x01 0x80 0xFF true null "
                   "e-acute \\ud83d \\ude00 t n), each in an exactly sized heap block under ASan, error line/column checked against the line structure "
                   "(CRLF, CR, LF), and every byte prefix of every accepted document of one token less; nesting 1/10/100/1000 of arrays, objects, mixed, and with scalar / empty-container siblings on every level (closed and truncated); wide arrays and objects with 0..300 and 2^k-1, 2^k, 2^k+1 (k = 9..14) members; round trip: every value tree with <= %d nodes "
                   "over null/true/false/0/-1/INT_MIN/INT_MAX/INT64_MIN/INT64_MAX, all strings of length <= 2 over {a \" \\ / LF CR TAB 0x01 0x7f e-acute emoji}, every byte 0x01..0x7f alone and between two letters, 64-bit integers at the digit-count and double-precision boundaries, "
                   "lists and maps; stripComments: every string of <= %d symbols over { / * \" \\ LF CR a SP } against a reference state machine; "
                   "parser reuse: every pair (first document of <= %d tokens, second of <= %d tokens) parsed by one Json::Parser object - verdict, value, error line/column/text of the second parse equal those of a fresh parser. "
                   "distinct_nontrivial counts inputs of >= 2 tokens / trees of >= 2 nodes / strip inputs containing '/'"
                   % (p["parse_len"], p["nodes"], p["strip_len"], p["reuse"][0], p["reuse"][1]),
           "exhaustive": True, "bounds": p,
           "parse_accepted": int(c.get("parse_accepted", 0)), "parse_rejected": int(c.get("parse_rejected", 0)), "reuse_pairs": int(c.get("reuse_pairs", 0))}
    return ctx.finish("exploration", cov, ["inputs are NUL-terminated; doubles and unsigned 64-bit values are outside the round-trip statement",
                                          "Variant equality (==) decides tree equality"], tags=["C15"])

def replay(ctx, rp):
    b = build(ctx)
    print("replay: re-running the enumeration of the mode that produced:", rp["case"][:200])
    args = rp.get("args") or ["--mode", "parse", "--len", "5"]
    ctx.run_shards(b, [a for a in args if not a.startswith("--shard")][:4])
    return ctx.finish("exploration", {"evaluations": 1, "distinct_nontrivial": 2, "rule": "replay"}, tags=["C15"])
