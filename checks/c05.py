"""C05 elements never move while they live: address book + iterator stability in every state of the container BFS."""
from checks import containers as K, c01, c02, c03, c04

RULE = ("the C01-C03 history BFS on List, Map, MultiMap, HashMap, HashSet, PoolList, PoolMap; at insertion the harness records the "
        "address of every element (key and value); after every operation every live element re-obtained by iteration and by find "
        "must be at its recorded address, including after swap (found in the other variable) and after unrelated inserts/removals/"
        "rebalancing; PoolList/PoolMap elements are of a non-copyable type (a library that copied or moved them would not compile)")

def run(ctx):
    cs, bs = c04.all_configs(ctx, False)
    cs = [c for c in cs if not c[1].startswith("Array")]
    if ctx.tier == "quick":
        # the depth-bounded sparse-tree configurations stay with C01 and with this check's thorough tier
        cs = [c for c in cs if " fib " not in c[1]]
    K.run_bfs_configs(ctx, cs)
    cov = K.mc_coverage(ctx, RULE)
    return ctx.finish("model_checking", cov,
                      ["List::sort exchanges payloads between nodes; identity across sort is not part of the statement and is re-learnt",
                       "addresses are re-learnt after assignment / copy construction (new elements)"],
                      tags=["C05"])

def replay(ctx, rp):
    return c04.replay(ctx, rp)
