"""Handle-history harnesses shared by C09 (sequential part) and C16 (copies of element values)."""
from checks import containers as K

XSRC = ["src/Document/Xml.cpp", "src/String.cpp", "src/Memory.cpp", "src/Debug.cpp", "src/Error.cpp", "src/File.cpp", "src/Directory.cpp", "src/Time.cpp"]

def build_ptr(ctx):
    return K.build_variant2(ctx, "handles_ptr", ["handles_h.cpp"], ["VF_PTR"], [ctx.repo(s) for s in XSRC])

def build_xml(ctx):
    return K.build_variant2(ctx, "handles_xml", ["handles_h.cpp"], ["VF_XML"], [ctx.repo(s) for s in XSRC])

def run_xml(ctx):
    n = 4 if ctx.tier == "quick" else 5
    K.run_bfs_configs(ctx, [(build_xml(ctx), "Xml::Variant handles maxnodes=%d" % n, dict(maxnodes=n, depth=7 if ctx.tier == "quick" else 9, _big=True))])

def run_ptr(ctx):
    K.run_bfs_configs(ctx, [(build_ptr(ctx), "RefCount::Ptr handles", dict(_big=True))])

def builders(ctx):
    return {"handles_ptr": build_ptr, "handles_xml": build_xml}
