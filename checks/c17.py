"""C17 SHA-256 / HMAC: exhaustive over length and chunking shapes (explorer D)."""
import hashlib, hmac, os

def gen(g, n, seed):
    out = bytearray(n)
    x = (12345 + seed) & 0xffffffff
    for i in range(n):
        if g == 0: out[i] = 0
        elif g == 1: out[i] = 0xff
        elif g == 2: out[i] = (i + seed) & 0xff
        else:
            x = (x * 1103515245 + 12345) & 0xffffffff
            out[i] = (x >> 16) & 0xff
    return bytes(out)

MLENS = [0, 1, 55, 56, 63, 64, 65, 119, 120, 300]

def params(tier):
    if tier == "quick":
        return dict(maxlen=300, max3=130, maxkey=200, extra=[], huge=[2**29 - 1, 2**29])
    return dict(maxlen=1500, max3=400, maxkey=300, extra=[4095, 4096, 65537, 1000003], huge=[2**29 - 1, 2**29, 2**29 + 1, 2**32 + 5])

def build(ctx):
    return ctx.compile("c17", [ctx.verif("harness/c17_sha256.cpp"), ctx.repo("src/Crypto/Sha256.cpp"),
                               ctx.repo("src/Memory.cpp")])

def args_for(ctx, p):
    table = os.path.join(ctx.bdir, "table.txt")
    with open(table, "w") as f:
        for g in range(4):
            for L in list(range(p["maxlen"] + 1)) + p["extra"]:
                f.write("H:%d:%d %s\n" % (g, L, hashlib.sha256(gen(g, L, 0)).hexdigest()))
            for kl in range(p["maxkey"] + 1):
                for ml in MLENS:
                    f.write("M:%d:%d:%d %s\n" % (g, kl, ml, hmac.new(gen(g, kl, 7), gen(g, ml, 3), hashlib.sha256).hexdigest()))
    with open(table, "a") as f:
        block = bytes(1 << 20)
        for L in p["huge"]:
            h = hashlib.sha256(); done = 0
            while done < L:
                n = min(len(block), L - done); h.update(block[:n]); done += n
            f.write("Z:%d %s\n" % (L, h.hexdigest()))
    return ["--huge", ",".join(map(str, p["huge"])), "--table", table, "--maxlen", str(p["maxlen"]), "--max3", str(p["max3"]), "--maxkey", str(p["maxkey"]),
            "--extra", ",".join(map(str, p["extra"]))]

def run(ctx):
    p = params(ctx.tier)
    b = build(ctx)
    ctx.run_shards(b, args_for(ctx, p))
    c = ctx.counters
    ev = c.get("huge", 0) + c.get("oneshot", 0) + c.get("twoway", 0) + c.get("threeway", 0) + c.get("hmac", 0) + \
        c.get("reuse_after_finalize", 0) + c.get("reuse_after_reset", 0)
    cov = {"evaluations": ev, "distinct_nontrivial": c.get("distinct_nontrivial", 0),
           "rule": "every (generator in zeros/0xFF/counter/LCG) x (length 0..%d%s) one-shot vs hashlib; every 2-way split; "
                   "every 3-way split for lengths <= %d; reuse after finalize/reset; HMAC key lengths 0..%d x message lengths %s "
                   "vs python hmac; zero messages of %s bytes fed in 1 MiB and in 1000003-byte chunks (length field and counter beyond 32 bits). distinct_nontrivial counts (generator,length,split) tuples whose chunks are all non-empty, "
                   "plus every hmac (generator,keylen,msglen)" % (p["maxlen"], "+" + str(p["extra"]) if p["extra"] else "",
                                                                   p["max3"], p["maxkey"], MLENS, p["huge"]),
           "exhaustive": True,
           "bounds": p}
    return ctx.finish("exploration", cov, ["Python hashlib/hmac is the reference implementation",
                                          "message content is covered by four generators only; lengths/chunkings are exhaustive within the bounds"])

def replay(ctx, rp):
    p = params("thorough")
    b = build(ctx)
    print("replaying", rp["case"])
    ctx.run_shards(b, args_for(ctx, p), nshards=1)   # deterministic: whole enumeration re-run
    return ctx.finish("exploration", {"evaluations": 1, "distinct_nontrivial": 2, "rule": "replay"})
