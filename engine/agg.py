#!/usr/bin/env python3
import sys, json, collections
c = collections.Counter(); 
for l in open(sys.argv[1]):
    try: o = json.loads(l)
    except Exception: continue
    if o["t"] == "stat":
        if o["k"].startswith("max:"): c[o["k"]] = max(c[o["k"]], o["v"])
        else: c[o["k"]] += o["v"]
    else: print(l.strip()[:1500])
for k in sorted(c): print(k, c[k])
