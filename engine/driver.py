"""Driver library for /verif/check: build harnesses from /repo's working tree,
run them in sharded worker processes, turn crashes into violations, match known
findings, write evidence.  Python stdlib only."""
import os, sys, json, time, subprocess, shutil, hashlib, re
from concurrent.futures import ThreadPoolExecutor

VERIF = os.path.dirname(os.path.dirname(os.path.abspath(__file__)))
REPO = os.environ.get("VERIF_REPO", "/repo")
# mutation experiments redirect all outputs (build, evidence, replays) so that they never
# disturb the registered checks: VERIF_OUT=<dir>
OUT = os.environ.get("VERIF_OUT", VERIF)
NPROC = int(os.environ.get("VERIF_JOBS", str(os.cpu_count() or 4)))

ASAN_FLAGS = ["-std=c++11", "-O1", "-g", "-DNDEBUG", "-fno-omit-frame-pointer",
              "-fsanitize=address,bounds,null", "-fno-sanitize-recover=all",
              "-Wno-deprecated-declarations", "-w"]
ASAN_ENV = {"ASAN_OPTIONS": "detect_leaks=0:exitcode=98:abort_on_error=0:allocator_may_return_null=1:"
                            "detect_stack_use_after_return=0:new_delete_type_mismatch=0:alloc_dealloc_mismatch=0:"
                            "handle_abort=1:print_summary=1",
            "UBSAN_OPTIONS": "print_stacktrace=1:halt_on_error=1:exitcode=98"}


class HarnessError(Exception):
    pass


def load_known():
    known, fixed = [], []
    p = os.path.join(VERIF, "known_findings.txt")
    if os.path.exists(p):
        for line in open(p):
            line = line.strip()
            if not line or line.startswith("#"):
                continue
            m = re.match(r"known:\s+property=(\S+)\s+key=(\S+)\s*(.*)$", line)
            if m:
                known.append({"property": m.group(1), "key": m.group(2), "what": m.group(3)})
                continue
            m = re.match(r"fixed:\s+property=(\S+)\s+(\S+)\s*(.*)$", line)
            if m:
                fixed.append({"property": m.group(1), "commit": m.group(2), "what": m.group(3)})
    return known, fixed


class Ctx:
    def __init__(self, pid, tier, seed):
        self.id = pid
        self.tier = tier
        self.seed = seed
        self.t0 = time.time()
        self.bdir = os.path.join(OUT, "build", pid)
        self.counters = {}
        self.samples = []
        self.violations = []      # dicts key, case, msg, harness, args
        self.notes = []
        self.assumptions = []
        self.deadline_hit = False
        self.runs = []
        # global wall-clock budget per tier (seconds); checks may override
        self.budget = 900 if tier == "quick" else 3600 * 3
        if os.environ.get("VERIF_BUDGET"):
            self.budget = int(os.environ["VERIF_BUDGET"])

    # ---------------------------------------------------------------- build
    def fresh_build_dir(self):
        shutil.rmtree(self.bdir, ignore_errors=True)
        os.makedirs(self.bdir, exist_ok=True)

    def compile(self, out, sources, flags=None, ldflags=None, cxx="g++", per_source_flags=None):
        """compile each source (absolute path) to an object in parallel, then link.
        Always rebuilt from scratch: /repo may have been edited."""
        flags = list(ASAN_FLAGS if flags is None else flags)
        ldflags = list(ldflags or [])
        objs = []
        jobs = []
        for i, s in enumerate(sources):
            o = os.path.join(self.bdir, "%s.%d.%s.o" % (os.path.basename(out), i, os.path.basename(s)))
            objs.append(o)
            f = flags + (per_source_flags.get(s, []) if per_source_flags else [])
            jobs.append([cxx] + f + ["-I" + self.shim_inc(), "-I" + os.path.join(REPO, "include"), "-I" + VERIF,
                         "-c", s, "-o", o])

        def run(cmd):
            r = subprocess.run(cmd, stdout=subprocess.PIPE, stderr=subprocess.STDOUT, universal_newlines=True)
            return cmd, r
        with ThreadPoolExecutor(max_workers=NPROC) as ex:
            for cmd, r in ex.map(run, jobs):
                if r.returncode != 0:
                    raise HarnessError("compile failed: %s\n%s" % (" ".join(cmd), r.stdout[-6000:]))
        outp = os.path.join(self.bdir, out)
        sanit = [f for f in flags if f.startswith("-fsanitize") or f.startswith("-fno-sanitize")]
        cmd = [cxx] + sanit + objs + ["-o", outp] + ldflags + ["-lpthread", "-lrt"]
        r = subprocess.run(cmd, stdout=subprocess.PIPE, stderr=subprocess.STDOUT, universal_newlines=True)
        if r.returncode != 0:
            raise HarnessError("link failed: %s\n%s" % (" ".join(cmd), r.stdout[-6000:]))
        return outp

    def shim_inc(self):
        """nstd/Base.hpp defines placement new itself and therefore cannot share a
        translation unit with <new>/<string>.  The harnesses get a generated copy of
        the *current* /repo Base.hpp with exactly those operator declarations removed
        (everything else, e.g. the hash functions, is the repository's text)."""
        d = os.path.join(self.bdir, "inc", "nstd")
        if not os.path.exists(os.path.join(d, "Base.hpp")):
            os.makedirs(d, exist_ok=True)
            src = open(os.path.join(REPO, "include", "nstd", "Base.hpp")).read().split("\n")
            out = ["// generated from /repo/include/nstd/Base.hpp by /verif/engine/driver.py", "#include <new>"]
            for line in src:
                if re.match(r"^\s*(inline\s+)?void\s*\*?\s*operator\s+(new|delete)", line):
                    out.append("// (removed) " + line)
                else:
                    out.append(line)
            open(os.path.join(d, "Base.hpp"), "w").write("\n".join(out))
        return os.path.join(self.bdir, "inc")

    def repo(self, *p):
        return os.path.join(REPO, *p)

    def verif(self, *p):
        return os.path.join(VERIF, *p)

    def remaining(self):
        return self.budget - (time.time() - self.t0)

    # ---------------------------------------------------------------- run
    def _absorb(self, path, label, binary, args):
        if not os.path.exists(path):
            return
        for line in open(path, errors="replace"):
            line = line.strip()
            if not line.startswith("{"):
                continue
            try:
                o = json.loads(line)
            except ValueError:
                continue
            t = o.get("t")
            if t == "stat":
                k = o["k"]
                if k.startswith("max:"):
                    self.counters[k] = max(self.counters.get(k, 0), o["v"])
                else:
                    self.counters[k] = self.counters.get(k, 0) + o["v"]
            elif t == "sample":
                if len(self.samples) < 12:
                    self.samples.append(o["v"])
            elif t == "viol":
                self.violations.append({"key": o["key"], "case": o["case"], "msg": o["msg"],
                                        "harness": label, "binary": os.path.basename(binary), "args": args})
            elif t == "note":
                self.notes.append(o["v"])

    def run_shards(self, binary, args, nshards=None, label=None, env=None, max_restarts=40,
                   per_shard_timeout=None):
        """run `binary args --shard i --nshards N --out .. --crumb ..` for every shard.
        A shard that dies is a violation for the case in its breadcrumb; the shard is
        restarted after that case (resume token)."""
        nshards = nshards or NPROC
        label = label or os.path.basename(binary)
        jobs = [(binary, args + ["--shard", str(i), "--nshards", str(nshards)], label) for i in range(nshards)]
        self.run_jobs(jobs, parallel=nshards, env=env, max_restarts=max_restarts, timeout=per_shard_timeout)

    def run_jobs(self, jobs, parallel=None, env=None, max_restarts=40, timeout=None):
        """jobs: list of (binary, args, label); each is one OS process that gets
        --out/--crumb/--deadline appended.  Up to `parallel` run concurrently."""
        parallel = parallel or NPROC
        e = dict(os.environ)
        e.update(ASAN_ENV)
        if env:
            e.update(env)
        deadline = self.t0 + self.budget
        procs = {}
        pending = list(enumerate(jobs))
        pending.reverse()
        self._jobseq = getattr(self, "_jobseq", 0)

        def start(i, gen, resume):
            binary, args, label = jobs[i]
            tag = "%d_%d" % (self._jobseq, i)
            out = os.path.join(self.bdir, "out.%s.%d" % (tag, gen))
            crumb = os.path.join(self.bdir, "crumb.%s" % tag)
            err = os.path.join(self.bdir, "err.%s.%d" % (tag, gen))
            tmp = os.path.join(self.bdir, "tmp.%s" % tag)
            os.makedirs(tmp, exist_ok=True)
            cmd = [binary] + args + ["--out", out, "--crumb", crumb, "--deadline", str(int(deadline)), "--tmp", tmp]
            if resume is not None:
                cmd += ["--resume", resume]
            p = subprocess.Popen(cmd, stdin=subprocess.DEVNULL, stdout=subprocess.DEVNULL, stderr=open(err, "w"), env=e)
            procs[i] = (p, gen, out, crumb, err, time.time())

        restarts = 0
        while procs or pending:
            while pending and len(procs) < parallel:
                i, _ = pending.pop()
                start(i, 0, None)
            time.sleep(0.02)
            for i in list(procs):
                p, gen, out, crumb, err, ts = procs[i]
                binary, args, label = jobs[i]
                rc = p.poll()
                if rc is None:
                    if timeout and time.time() - ts > timeout:
                        p.kill()
                    continue
                del procs[i]
                self._absorb(out, label, binary, args)
                if rc == 0:
                    continue
                if rc == 3:   # harness reported its own fatal error
                    raise HarnessError("%s: harness error\n%s" % (label, open(err, errors="replace").read()[-3000:]))
                # abnormal death: read crumb
                try:
                    raw = open(crumb, "rb").read().split(b"\0")[0].decode("utf-8", "replace")
                except OSError:
                    raw = ""
                parts = raw.split("\n", 2)
                if len(parts) < 3 or not parts[2]:
                    raise HarnessError("%s died (rc=%s) without breadcrumb\n%s" %
                                       (label, rc, open(err, errors="replace").read()[-3000:]))
                keyhint, resume, case = parts
                status = ""
                if "\n@@" in case:
                    case, status = case.split("\n@@", 1)
                errtxt = open(err, errors="replace").read()
                summ = ""
                m = re.search(r"SUMMARY: (.*)", errtxt)
                if m:
                    summ = m.group(1)
                else:
                    m = re.search(r"runtime error: (.*)", errtxt)
                    if m:
                        summ = "UBSan: " + m.group(1)
                kind = "crash"
                if status.startswith("TIMEOUT"):
                    kind = "hang"
                    summ = "did not terminate within the watchdog limit"
                elif status.startswith("MEMCAP"):
                    kind = "memgrowth"
                    summ = "allocated more than the memory cap (unbounded growth)"
                elif not summ:
                    summ = "process died rc=%s: %s" % (rc, errtxt[-400:].replace("\n", " | "))
                self.violations.append({"key": "%s:%s" % (kind, keyhint), "case": case,
                                        "msg": summ, "harness": label, "binary": os.path.basename(binary),
                                        "args": args, "stderr": errtxt[-4000:]})
                restarts += 1
                if restarts > max_restarts:
                    self.notes.append("more than %d crashing cases in %s; remaining cases of dying processes not explored"
                                      % (max_restarts, label))
                    self.counters["capped_restarts"] = 1
                    continue
                start(i, gen + 1, resume)
        self._jobseq += 1
        if self.counters.get("deadline_hit"):
            self.deadline_hit = True

    def run_one(self, binary, args, label=None, env=None):
        self.run_jobs([(binary, args, label or os.path.basename(binary))], parallel=1, env=env)

    # ---------------------------------------------------------------- finish
    def finish(self, level, coverage, assumptions=None, tags=None):
        """tags: if given, only violations whose key starts with one of these tags (or that
        are crashes / hangs / unbounded growth) belong to this property; harnesses shared
        between properties tag every oracle with the property it decides."""
        if tags is not None:
            mine, other = [], {}
            for v in self.violations:
                k = v["key"]
                if k.split(":")[0] in tags or k.split(":")[0] in ("crash", "hang", "memgrowth"):
                    mine.append(v)
                else:
                    other[k] = other.get(k, 0) + 1
            self.violations = mine
            if other:
                self.notes.append("violations of oracles that belong to other properties (reported by their own checks): %s"
                                  % json.dumps(other, sort_keys=True))
        known, fixed = load_known()
        known = [k for k in known if k["property"] == self.id]
        os.makedirs(os.path.join(OUT, "evidence"), exist_ok=True)
        os.makedirs(os.path.join(OUT, "replays"), exist_ok=True)
        seen_known = {}
        unknown = {}
        for v in self.violations:
            hit = None
            for k in known:
                if k["key"] == v["key"]:
                    hit = k
                    break
            if hit:
                seen_known.setdefault(hit["key"], (hit, v))
            else:
                unknown.setdefault(v["key"], v)
        for key, (k, v) in sorted(seen_known.items()):
            print("KNOWN-FINDING: property=%s %s key=%s case=%s" % (self.id, k["what"], key, v["case"][:200]))
        for k in known:
            if k["key"] not in seen_known:
                print("note: known finding key=%s did not reproduce in this run" % k["key"])
        n = 0
        for key, v in sorted(unknown.items()):
            n += 1
            if n > 25:
                break
            rp = os.path.join(OUT, "replays", "%s-%s-%s.json" % (
                self.id, self.tier, hashlib.md5(key.encode()).hexdigest()[:10]))
            with open(rp, "w") as f:
                json.dump({"property": self.id, "key": key, "case": v["case"], "msg": v["msg"],
                           "harness": v["harness"], "binary": v.get("binary"), "args": v.get("args"),
                           "stderr": v.get("stderr", "")}, f, indent=1)
            print("VIOLATION property=%s replay=%s" % (self.id, rp))
            print("  key=%s\n  case=%s\n  msg=%s" % (key, v["case"][:600], v["msg"][:600]))
        cov = dict(coverage)
        cov.setdefault("samples", self.samples[:8] or ["(none)"])
        cov["counters"] = dict(sorted(self.counters.items()))
        if self.deadline_hit or self.counters.get("capped_restarts") or self.counters.get("capped_violations"):
            cov["exhaustive"] = False
            cov["deadline_hit"] = bool(self.deadline_hit)
        if self.notes:
            cov["notes"] = self.notes[:20]
        cov["known_findings_reported"] = sorted(seen_known)
        ev = {"property_id": self.id, "tier": self.tier, "seed": self.seed, "level": level,
              "coverage": cov, "assumptions": (assumptions or []) + self.assumptions,
              "wall_s": round(time.time() - self.t0, 2), "violations": len(unknown),
              "repo_head": subprocess.run(["git", "-C", REPO, "rev-parse", "HEAD"], stdout=subprocess.PIPE,
                                          universal_newlines=True).stdout.strip(),
              "repo_dirty": bool(subprocess.run(["git", "-C", REPO, "status", "--porcelain", "--untracked-files=no"],
                                                stdout=subprocess.PIPE, universal_newlines=True).stdout.strip())}
        with open(os.path.join(OUT, "evidence", "%s.json" % self.id), "w") as f:
            json.dump(ev, f, indent=1, sort_keys=True)
            f.write("\n")
        print("%s %s: %s; violations=%d known=%d wall=%.1fs" % (
            self.id, self.tier, " ".join("%s=%s" % (k, cov[k]) for k in
                                         ("states", "transitions", "evaluations", "distinct_nontrivial", "exhaustive")
                                         if k in cov), len(unknown), len(seen_known), time.time() - self.t0))
        return 1 if unknown else 0
