// Harness element / key type with an instance registry: every construction,
// destruction, copy, assignment and comparison checks that the objects involved
// are alive; each instance owns a heap cell so that a missed destructor shows up
// in the allocation ledger and a repeated one as a double free.
// Faults are recorded (not thrown: destructors must not throw) and picked up by
// the harness after each library call through vf::check_faults().
#pragma once
#include "engine/common.hpp"
#include <unordered_set>

namespace vf {

struct Registry
{
  std::unordered_set<const void*> live;
  long long ctor, dtor, copies, assigns, cmps;
  std::string fault;       // first fault
  int hashMode;            // 0 identity, 1 constant, 2 mod 2
  Registry() : ctor(0), dtor(0), copies(0), assigns(0), cmps(0), hashMode(0) {}
  void reset() { Untrack u; live.clear(); ctor = dtor = copies = assigns = cmps = 0; fault.clear(); }
};
inline Registry& reg() { static Registry r; return r; }
inline void fault(const std::string& f) { Untrack u; if(reg().fault.empty()) reg().fault = f; }

struct Tracked
{
  int v;
  int* cell;
  void born()
  {
    bool fresh;
    { Untrack u; fresh = reg().live.insert(this).second; }
    if(!fresh) fault("construct-on-live: an element was constructed on top of a live element");
    cell = new int(v);
    ++reg().ctor;
  }
  bool alive(const char* what) const
  {
    bool ok;
    { Untrack u; ok = reg().live.count(this) != 0; }
    if(!ok) fault(std::string("touch-after-destroy: ") + what + " of an element that is not alive (destroyed or never constructed)");
    return ok;
  }
  Tracked() : v(0) { born(); }
  Tracked(int x) : v(x) { born(); }
  Tracked(const Tracked& o) : v(0)
  {
    o.alive("copy-construct from"); v = o.v;
    born();
    ++reg().copies;
  }
  ~Tracked()
  {
    if(alive("destroy"))
    {
      if(*cell != v) fault("payload-corrupt: element payload changed behind its back");
      delete cell;
      cell = 0;
      { Untrack u; reg().live.erase(this); }
    }
    ++reg().dtor;
  }
  Tracked& operator=(const Tracked& o)
  {
    bool a = alive("assign to"), b = o.alive("assign from");
    if(a && b) { v = o.v; *cell = v; }
    ++reg().assigns;
    return *this;
  }
  int get() const { alive("read"); return v; }
  void set(int x) { if(alive("write")) { v = x; *cell = x; } }
#define VF_CMP(op) bool operator op(const Tracked& o) const { ++reg().cmps; alive("compare"); o.alive("compare"); return v op o.v; }   /* a dead element still holds its last value, as a plain type would */
  VF_CMP(==) VF_CMP(!=) VF_CMP(<) VF_CMP(>) VF_CMP(<=) VF_CMP(>=)
#undef VF_CMP
};

// hash used by HashMap/HashSet/PoolMap for Tracked keys (found by ADL); mode selected per run
inline unsigned long hash(const Tracked& t)
{
  int v = t.get();
  switch(reg().hashMode)
  {
  case 1: return 7;
  case 2: return (unsigned long)(v & 1);
  default: return (unsigned long)v;
  }
}

} // namespace vf
