// Explorer A: explicit-state breadth-first search over operation histories of a
// real object.  A state is the shortest history reaching it (live objects cannot
// be copied faithfully), replayed on fresh objects; states are de-duplicated on
// a canonical string supplied by the harness.  Levels are processed by forked
// worker processes; a worker that dies (sanitizer report, fault, watchdog, memory
// cap) is turned into a violation carrying the history, and restarted behind it.
//
// Harness concept H:
//   H(const Cfg&)            fresh objects + fresh reference model
//   int nops()               number of operations enabled in the current state
//   std::string opname(int)  printable name of operation i in the current state
//   void apply(int)          perform operation i on object and model and check the
//                            oracle; reports by vf::fail(key,msg)
//   std::string canon()      canonical state (see DESIGN §2.3)
//   void finish()            destroy the objects, check ledger / registry
#pragma once
#include "engine/common.hpp"
#include <unordered_set>
#include <unordered_map>
#include <sys/wait.h>
#include <fcntl.h>
#include <time.h>
#include <stdint.h>

namespace vf {

struct Violation { std::string key, msg; Violation(const std::string& k, const std::string& m) : key(k), msg(m) {} };
// A harness shared between properties tags every oracle with the property it decides.  When a check runs the harness for
// its own property (--owntag Cxx), a failing oracle of another property does not end the transition: it is remembered
// and the transition goes on to the check's own oracles (the other property's check reports the remembered failure).
struct Foreign { std::string owntag, key, msg; };
inline Foreign& foreign() { static Foreign f; return f; }
inline void fail(const std::string& key, const std::string& msg)
{
  Foreign& f = foreign();
  if(!f.owntag.empty() && key.size() > 3 && key[0] == 'C' && key[1] >= '0' && key[1] <= '9' && key[2] >= '0' && key[2] <= '9' && key[3] == ':' && key.compare(0, 3, f.owntag) != 0)
  {
    if(f.key.empty()) { f.key = key; f.msg = msg; }
    return;
  }
  throw Violation(key, msg);
}
// evaluates a block of checks as a predicate: true if none of them failed (whatever property they are tagged with)
template<class F> inline bool holds(F f)
{
  Foreign saved = foreign();
  foreign().owntag.clear();
  bool ok = true;
  try { f(); } catch(Violation&) { ok = false; }
  foreign() = saved;
  return ok;
}
#define VF_CHECK(cond, key, ...) do { if(!(cond)) ::vf::fail(key, ::vf::fmt(__VA_ARGS__)); } while(0)

typedef std::vector<uint16_t> Hist;

inline std::string histstr(const Hist& h, int op = -1)
{
  std::string s; char b[16];
  for(size_t i = 0; i < h.size(); ++i) { snprintf(b, sizeof(b), i ? ",%d" : "%d", (int)h[i]); s += b; }
  if(op >= 0) { snprintf(b, sizeof(b), "|%d", op); s += b; }
  return s;
}
inline bool parsehist(const char* s, Hist& h, int& op)
{
  h.clear(); op = -1;
  const char* p = s;
  while(*p && *p != '|')
  {
    if(*p == ',') { ++p; continue; }
    h.push_back((uint16_t)strtol(p, (char**)&p, 10));
  }
  if(*p == '|') op = (int)strtol(p + 1, 0, 10);
  return true;
}

inline uint64_t fnv(const std::string& s)
{
  uint64_t h = 1469598103934665603ull;
  for(size_t i = 0; i < s.size(); ++i) { h ^= (unsigned char)s[i]; h *= 1099511628211ull; }
  return h;
}

template<class H, class Cfg> struct Bfs
{
  Cfg cfg;
  std::string label;         // configuration label, prefixed to case texts
  int maxDepth;
  int nworkers;
  long long deadline;
  std::string tmpdir;
  int watchdogMs;
  long long maxStates;

  std::unordered_set<std::string> seen;
  struct Node { Hist h; uint64_t ch; };
  std::vector<Node> frontier;
  long long transitions, states, nviolations;
  int completedDepth;
  bool fixpoint, stopped;

  Bfs(const Cfg& c, const std::string& lbl) : cfg(c), label(lbl), maxDepth(64), nworkers(16), deadline(0),
    watchdogMs(3000), maxStates(20000000), transitions(0), states(0), nviolations(0), completedDepth(-1),
    fixpoint(false), stopped(false) {}

  // The coordinating process never executes library code itself: descriptions and
  // the initial state are computed in a forked child under a watchdog, so that a
  // broken library cannot take the explorer down (crash, hang, memory growth).
  template<class F> bool inChild(F f, std::string& out)
  {
    int fds[2];
    if(pipe(fds) != 0) return false;
    fflush(outf()); fflush(stdout); fflush(stderr);
    pid_t p = fork();
    if(p < 0) { close(fds[0]); close(fds[1]); return false; }
    if(p == 0)
    {
      close(fds[0]);
      int dn = open("/dev/null", O_WRONLY); if(dn >= 0) { dup2(dn, 2); close(dn); }
      crumbobj().mem = 0;
      watchdog_arm(watchdogMs);
      std::string r;
      try { r = f(); } catch(Violation& v) { r = "\x01" + v.key + ": " + v.msg; }
      size_t off = 0;
      while(off < r.size()) { ssize_t n = write(fds[1], r.data() + off, r.size() - off); if(n <= 0) break; off += (size_t)n; }
      _exit(0);
    }
    close(fds[1]);
    out.clear();
    char buf[4096]; ssize_t n;
    while((n = read(fds[0], buf, sizeof(buf))) > 0) out.append(buf, (size_t)n);
    close(fds[0]);
    int st = 0;
    waitpid(p, &st, 0);
    return WIFEXITED(st) && WEXITSTATUS(st) == 0 && (out.empty() || out[0] != '\x01');
  }

  // replays history on a fresh object; returns the object (caller owns)
  H* replay(const Hist& h, std::vector<std::string>* names = 0)
  {
    H* o = new H(cfg);
    for(size_t i = 0; i < h.size(); ++i)
    {
      if((int)h[i] >= o->nops())
      {
        fprintf(stderr, "replay divergence: op %d of %d not enabled at step %d (non-deterministic harness)\n", (int)h[i], o->nops(), (int)i);
        _exit(3);
      }
      if(names) names->push_back(o->opname(h[i]));
      o->apply(h[i]);
    }
    return o;
  }

  std::string describe(const Hist& h, int op)
  {
    std::string r;
    struct F { Bfs* b; const Hist* h; int op; std::string operator()() { return b->describeUnsafe(*h, op); } } f = {this, &h, op};
    if(inChild(f, r)) return r;
    return "[" + label + "] (history could not be rendered) {hist=" + histstr(h, op) + "}";
  }
  std::string describeUnsafe(const Hist& h, int op)
  {
    std::vector<std::string> names;
    std::string last;
    try
    {
      H* o = replay(h, &names);
      if(op >= 0) last = op < o->nops() ? o->opname(op) : "?";
      // intentionally leaked: destroying is not needed for a description
    }
    catch(Violation&) {}
    std::string s = "[" + label + "] ";
    for(size_t i = 0; i < names.size(); ++i) { if(i) s += "; "; s += names[i]; }
    if(op >= 0) { s += names.empty() ? "" : "; "; s += ">> " + last; }
    s += "  {hist=" + histstr(h, op) + "}";
    return s;
  }
  std::string lastname(const Hist& h, int op)
  {
    std::string r;
    struct F { Bfs* b; const Hist* h; int op; std::string operator()() { H* o = b->replay(*h); return op < o->nops() ? o->opname(op) : std::string("?"); } } f = {this, &h, op};
    if(inChild(f, r)) return r;
    return "?";
  }

  static std::string opkind(const std::string& name)
  { // operation name up to the first '(' - used as finding key component
    size_t p = name.find('(');
    return p == std::string::npos ? name : name.substr(0, p);
  }

  // ----- worker: processes frontier[i], i = w, w+W, ...; starts at (si, sop)
  void worker(int w, int W, size_t si, int sop, const std::string& recfile)
  {
    // records are written with one write() each: a worker that dies never leaves a torn record
    int rf = open(recfile.c_str(), O_WRONLY | O_CREAT | O_APPEND, 0644);
    if(rf < 0) _exit(3);
    std::unordered_set<std::string> local;
    long long done = 0;
    std::map<std::string, int> violPerKey;
    int totalViol = 0;
    for(size_t i = si; i < frontier.size(); i += W)
    {
      const Node& n = frontier[i];
      int first = (i == si) ? sop : 0;
      crumb("replay", fmt("%zu:%d", i, 1 << 30), histstr(n.h));
      watchdog_arm(watchdogMs);
      H* base = 0;
      int nops = 0;
      try
      {
        base = replay(n.h);
        nops = base->nops();
        if(first == 0)
        {
          std::string c = base->canon();
          if(fnv(c) != n.ch)
          {
            fprintf(stderr, "canonical state differs on replay of %s (non-deterministic harness)\n", histstr(n.h).c_str());
            _exit(3);
          }
        }
        base->finish();
        delete base;
      }
      catch(Violation& v)
      {
        fprintf(stderr, "violation while replaying an accepted history %s: %s %s (non-deterministic harness)\n", histstr(n.h).c_str(), v.key.c_str(), v.msg.c_str());
        _exit(3);
      }
      for(int op = first; op < nops; ++op)
      {
        if(deadline && (done & 0xff) == 0 && time(0) > deadline) { hit("deadline_hit"); goto out; }
        ++done;
        crumb("op", fmt("%zu:%d", i, op), histstr(n.h, op));
        watchdog_arm(watchdogMs);
        H* o = 0;
        try
        {
          o = replay(n.h);
          foreign().key.clear();
          o->apply(op);
          std::string c = o->canon();
          o->finish();
          if(!foreign().key.empty())
          { // an oracle of another property failed, the check's own oracles held: the other check reports it (two records per key are
            // kept for the log); for this check the transition counts and the exploration goes on behind it
            Violation v(foreign().key, foreign().msg); foreign().key.clear();
            hit("foreign_oracle_failures");
            if(++violPerKey[v.key] <= 2) { watchdog_arm(watchdogMs); violation(v.key, describe(n.h, op), v.msg); watchdog_arm(watchdogMs); }
          }
          delete o;
          hit("transitions");
          if(!seen.count(c) && local.insert(c).second)
          {
            uint32_t hl = (uint32_t)n.h.size() + 1, cl = (uint32_t)c.size();
            std::string recbuf;
            recbuf.append((const char*)&hl, 4);
            if(!n.h.empty()) recbuf.append((const char*)&n.h[0], 2 * n.h.size());
            uint16_t o16 = (uint16_t)op; recbuf.append((const char*)&o16, 2);
            recbuf.append((const char*)&cl, 4);
            recbuf.append(c);
            if(write(rf, recbuf.data(), recbuf.size()) != (ssize_t)recbuf.size()) { fprintf(stderr, "short write of state record\n"); _exit(3); }
          }
        }
        catch(Violation& v)
        {
          // the failed object is abandoned (not destroyed): its state is suspect
          hit("transitions");
          hit("violating_transitions");
          if(++violPerKey[v.key] <= 2)
          {
            watchdog_arm(watchdogMs);
            violation(v.key, describe(n.h, op), v.msg);
          }
          if(++totalViol >= 12) { hit("capped_violations"); goto out5; }
        }
      }
    }
  out:
    watchdog_disarm();
    close(rf);
    emit_counters();
    fflush(outf());
    _exit(0);
  out5: // enough violations seen by this worker: the level is abandoned, exploration stops
    watchdog_disarm();
    close(rf);
    emit_counters();
    fflush(outf());
    _exit(5);
  }

  static std::string errsummary(const std::string& path)
  {
    FILE* f = fopen(path.c_str(), "r");
    if(!f) return "";
    std::string all; char buf[4096]; size_t n;
    while((n = fread(buf, 1, sizeof(buf), f)) > 0) { all.append(buf, n); if(all.size() > (1 << 20)) break; }
    fclose(f);
    size_t p = all.find("SUMMARY: ");
    if(p != std::string::npos) { size_t e = all.find('\n', p); return all.substr(p + 9, e == std::string::npos ? std::string::npos : e - p - 9); }
    p = all.find("runtime error: ");
    if(p != std::string::npos) { size_t e = all.find('\n', p); return "UBSan " + all.substr(p, e == std::string::npos ? std::string::npos : e - p); }
    if(all.size() > 300) all = all.substr(all.size() - 300);
    for(size_t i = 0; i < all.size(); ++i) if(all[i] == '\n') all[i] = '|';
    return all;
  }

  void processLevel(int depth)
  {
    int W = nworkers;
    if((size_t)W > frontier.size()) W = (int)frontier.size();
    if(W < 1) W = 1;
    fflush(outf()); fflush(stdout); fflush(stderr);
    std::vector<pid_t> pids(W);
    std::vector<std::string> rec(W), crumbf(W), errf(W);
    struct Start { size_t i; int op; };
    std::vector<Start> st(W);
    int restarts = 0;
    std::map<std::string, int> slowRetries;
    for(int w = 0; w < W; ++w)
    {
      rec[w] = fmt("%s/rec.%d.%d", tmpdir.c_str(), depth, w);
      crumbf[w] = fmt("%s/crumb.%d", tmpdir.c_str(), w);
      errf[w] = fmt("%s/err.%d", tmpdir.c_str(), w);
      unlink(rec[w].c_str());
      st[w].i = w; st[w].op = 0;
    }
    std::vector<int> todo;
    for(int w = 0; w < W; ++w) todo.push_back(w);
    int running = 0;
    std::map<pid_t, int> who;
    while(!todo.empty() || running)
    {
      while(!todo.empty())
      {
        int w = todo.back(); todo.pop_back();
        pid_t p = fork();
        if(p < 0) { perror("fork"); _exit(3); }
        if(p == 0)
        {
          int fd = open(errf[w].c_str(), O_WRONLY | O_CREAT | O_TRUNC, 0644);
          if(fd >= 0) { dup2(fd, 2); close(fd); }
          crumb_open(crumbf[w].c_str());
          worker(w, W, st[w].i, st[w].op, rec[w]);
          _exit(0);
        }
        who[p] = w; ++running;
      }
      int status = 0;
      pid_t p = wait(&status);
      if(p < 0) break;
      if(!who.count(p)) continue;
      int w = who[p]; who.erase(p); --running;
      if(WIFEXITED(status) && WEXITSTATUS(status) == 0) continue;
      if(WIFEXITED(status) && WEXITSTATUS(status) == 5) { stopped = true; continue; }
      if(WIFEXITED(status) && WEXITSTATUS(status) == 3)
      {
        fprintf(stderr, "worker %d: harness error: %s\n", w, errsummary(errf[w]).c_str());
        _exit(3);
      }
      // abnormal death -> violation for the breadcrumb case
      std::string raw;
      { FILE* f = fopen(crumbf[w].c_str(), "r"); if(f) { char buf[65536]; size_t n = fread(buf, 1, sizeof(buf) - 1, f); buf[n] = 0; raw = buf; fclose(f); } }
      size_t a = raw.find('\n'), b = a == std::string::npos ? a : raw.find('\n', a + 1);
      if(b == std::string::npos) { fprintf(stderr, "worker %d died without breadcrumb (status %d): %s\n", w, status, errsummary(errf[w]).c_str()); _exit(3); }
      std::string kind = raw.substr(0, a), resume = raw.substr(a + 1, b - a - 1), cs = raw.substr(b + 1);
      std::string status2;
      size_t m = cs.find("\n@@");
      if(m != std::string::npos) { status2 = cs.substr(m + 3); cs = cs.substr(0, m); }
      size_t ci = 0; int cop = 0;
      sscanf(resume.c_str(), "%zu:%d", &ci, &cop);
      if(kind == "replay")
      {
        fprintf(stderr, "worker %d died while replaying an accepted history %s (non-deterministic harness): %s\n", w, cs.c_str(), errsummary(errf[w]).c_str());
        _exit(3);
      }
      Hist h; int op;
      parsehist(cs.c_str(), h, op);
      std::string what = "crash", msg = errsummary(errf[w]);
      if(status2.compare(0, 7, "TIMEOUT") == 0)
      {
        // replay before report: the history is executed once more, alone, with ten times the limit; a transition that was only slow
        // (the machine is shared) is handed back to its worker instead of being reported as a hang
        what = "hang"; msg = "operation did not terminate within the watchdog limit";
        fflush(stdout); fflush(stderr);
        pid_t cp = fork();
        if(cp == 0)
        {
          int dn = open("/dev/null", O_WRONLY); if(dn >= 0) { dup2(dn, 1); dup2(dn, 2); }
          H* o = new H(cfg);
          try { for(size_t i = 0; i <= h.size(); ++i) { int x = i < h.size() ? (int)h[i] : op; if(x < 0 || x >= o->nops()) break; watchdog_arm(watchdogMs * 10); o->apply(x); } }
          catch(Violation&) {}
          watchdog_disarm();
          _exit(0);
        }
        int cst = 0; bool confirmed = true;
        if(cp > 0 && waitpid(cp, &cst, 0) == cp && WIFEXITED(cst) && WEXITSTATUS(cst) == 0) confirmed = false;
        if(!confirmed)
        {
          hit("watchdog_retries");
          bool again = ++slowRetries[cs] <= 3;
          if(!again) { note("a transition exceeded the watchdog limit four times but terminates when run alone; skipped (machine overloaded)"); hit("capped_restarts"); }
          st[w].i = ci; st[w].op = again ? cop : cop + 1;     // the same transition again
          todo.push_back(w);
          continue;
        }
      }
      else if(status2.compare(0, 6, "MEMCAP") == 0) { what = "memgrowth"; msg = "operation allocated more than the memory cap (unbounded growth)"; }
      else if(WIFSIGNALED(status)) msg = fmt("signal %d; ", WTERMSIG(status)) + msg;
      violation(what + ":" + opkind(lastname(h, op)), describe(h, op), msg);
      hit("violating_transitions"); hit("transitions");
      ++nviolations;
      if(++restarts > 48) { note("more than 48 crashing/hanging transitions in one level; exploration stopped early"); hit("capped_restarts"); stopped = true; continue; }
      st[w].i = ci; st[w].op = cop + 1;
      todo.push_back(w);
    }
    // merge
    std::vector<Node> next;
    for(int w = 0; w < W; ++w)
    {
      FILE* f = fopen(rec[w].c_str(), "rb");
      if(!f) continue;
      uint32_t hl, cl;
      while(fread(&hl, 4, 1, f) == 1)
      {
        if(hl > 100000) { fprintf(stderr, "corrupt state record\n"); _exit(3); }
        Node n; n.h.resize(hl);
        if(hl && fread(&n.h[0], 2, hl, f) != hl) break;
        if(fread(&cl, 4, 1, f) != 1) break;
        std::string c(cl, '\0');
        if(cl && fread(&c[0], 1, cl, f) != cl) break;
        if(seen.insert(c).second) { n.ch = fnv(c); next.push_back(n); }
      }
      fclose(f);
      unlink(rec[w].c_str());
    }
    frontier.swap(next);
  }

  void run()
  {
    { // initial state
      std::string c;
      struct F { Bfs* b; std::string operator()() { H* o = new H(b->cfg); std::string c = o->canon(); o->finish(); delete o; return c; } } f = {this};
      if(!inChild(f, c))
      {
        violation("crash:initial-state", "[" + label + "] construct and destroy the empty object", c.empty() ? "process died" : c.substr(1));
        hit("configs");
        emit_counters();
        return;
      }
      seen.insert(c);
      Node n; n.ch = fnv(c);
      frontier.push_back(n);
    }
    int depth = 0;
    for(; depth < maxDepth && !frontier.empty(); ++depth)
    {
      if(deadline && time(0) > deadline) { hit("deadline_hit"); stopped = true; break; }
      size_t before = counters().count("deadline_hit") ? 1 : 0; (void)before;
      if(depth >= 1 && nsamples() < 3) sample(describe(frontier[frontier.size() / 2].h, -1), 3);
      processLevel(depth);
      if(stopped) break;
      if(deadline && time(0) > deadline) { stopped = true; break; } // level possibly incomplete
      completedDepth = depth + 1;
      if((long long)seen.size() > maxStates) { note("state cap reached"); hit("state_cap_hit"); stopped = true; break; }
    }
    fixpoint = frontier.empty() && !stopped;
    states = (long long)seen.size();
    hit("states", states);
    hit(("max:depth_completed:" + label).c_str(), completedDepth);
    hit("max:depth_completed", completedDepth);
    if(fixpoint) hit("fixpoints"); else hit("depth_bounded_runs");
    hit("configs");
    // a few sample histories (deepest states)
    emit_counters();
  }

  int replayCase(const char* cs)
  {
    Hist h; int op;
    parsehist(cs, h, op);
    H* o = new H(cfg);
    try
    {
      for(size_t i = 0; i <= h.size(); ++i)
      {
        int x = i < h.size() ? (int)h[i] : op;
        if(x < 0) break;
        if(x >= o->nops()) { printf("op %d not enabled\n", x); return 2; }
        printf("  %s\n", o->opname(x).c_str()); fflush(stdout);
        watchdog_arm(watchdogMs * 4);      // a recorded hang is reproduced as a watchdog exit, not as a replay that never ends
        o->apply(x);
        printf("      -> %s\n", o->canon().c_str());
      }
      o->finish();
      watchdog_disarm();
    }
    catch(Violation& v)
    {
      watchdog_disarm();
      printf("REPRODUCED key=%s msg=%s\n", v.key.c_str(), v.msg.c_str());
      violation(v.key, describe(h, op), v.msg);
      return 1;
    }
    printf("no violation on replay\n");
    return 0;
  }
};

// glue used by every history harness' main()
template<class H, class Cfg> int bfs_main(int argc, char** argv, const Cfg& cfg, const std::string& label, int defDepth)
{
  Bfs<H, Cfg> b(cfg, label);
  b.maxDepth = (int)argll(argc, argv, "--depth", defDepth);
  foreign().owntag = arg(argc, argv, "--owntag", "");
  b.nworkers = (int)argll(argc, argv, "--workers", 16);
  b.deadline = argll(argc, argv, "--deadline", 0);
  b.watchdogMs = (int)argll(argc, argv, "--watchdog-ms", 3000);
  b.tmpdir = arg(argc, argv, "--tmp", "/tmp");
  const char* rc = arg(argc, argv, "--replay-case");
  if(rc) return b.replayCase(rc);
  b.run();
  // samples: a few of the last frontier / any seen
  return 0;
}

} // namespace vf
