/* API between scenarios and the schedule explorer runtime (explorer B). */
#ifndef VF_SCHED_H
#define VF_SCHED_H
#ifdef __cplusplus
extern "C" {
#endif
/* record a violation of the property (the first one is reported); the execution still runs to its end */
void vf_fail(const char* key, const char* msg);
void vf_failf(const char* key, const char* fmt, ...);
/* environment decision with n alternatives; any alternative other than 0 costs one deviation */
int vf_env_choice(int n);
/* observable outcome of the execution (distinct outcomes are counted to detect vacuous exploration) */
void vf_outcome(const char* fmt, ...);
/* virtual clock (nanoseconds since the epoch of the run) */
long long vf_now_ns(void);
void vf_set_clock_ns(long long ns);
/* id of the calling scenario thread (0 = the thread running vf_scenario_run) */
int vf_thread_id(void);
/* the calling thread may stay blocked when the scenario ends (e.g. pool workers) */
void vf_mark_daemon(void);
/* every thread other than the scenario thread belongs to the library (pool workers): they may stay blocked when the scenario ends */
void vf_mark_library_threads_daemon(void);
/* counters reported in the evidence */
void vf_hit(const char* name);
/* harness-level happens-before marker: a plain event that other oracles refer to (no scheduling point) */
long long vf_step(void);
/* number of scenario threads currently blocked inside a primitive wait */
int vf_blocked_threads(void);
/* how often the calling thread has been blocked inside a primitive so far */
long vf_my_block_count(void);

/* provided by the scenario translation unit */
int vf_scenario_count(void);
const char* vf_scenario_name(int id);
void vf_scenario_run(int id, int variant);
int vf_scenario_variants(int id);
#ifdef __cplusplus
}
#endif
#endif
