/* Forced include (-include) for every library / scenario translation unit explored by the schedule explorer:
   first the system headers (so that their own declarations are untouched), then the libc entry points the code
   under test uses for synchronisation, time and thread management are renamed to the scheduler's models.
   Only the translation units compiled with this header are redirected; libstdc++/glibc keep the real functions. */
#ifndef VF_SCHED_SHIM_H
#define VF_SCHED_SHIM_H
#include <pthread.h>
#include <semaphore.h>
#include <sched.h>
#include <time.h>
#include <unistd.h>
#include <sys/time.h>
#include <sys/epoll.h>
#include <sys/eventfd.h>
#include <sys/socket.h>
#include <netdb.h>
#ifdef __cplusplus
extern "C" {
#endif
int vf_pthread_mutex_init(pthread_mutex_t*, const pthread_mutexattr_t*);
int vf_pthread_mutex_destroy(pthread_mutex_t*);
int vf_pthread_mutex_lock(pthread_mutex_t*);
int vf_pthread_mutex_trylock(pthread_mutex_t*);
int vf_pthread_mutex_unlock(pthread_mutex_t*);
int vf_pthread_cond_init(pthread_cond_t*, const pthread_condattr_t*);
int vf_pthread_cond_destroy(pthread_cond_t*);
int vf_pthread_cond_wait(pthread_cond_t*, pthread_mutex_t*);
int vf_pthread_cond_timedwait(pthread_cond_t*, pthread_mutex_t*, const struct timespec*);
int vf_pthread_cond_signal(pthread_cond_t*);
int vf_pthread_cond_broadcast(pthread_cond_t*);
int vf_sem_init(sem_t*, int, unsigned);
int vf_sem_destroy(sem_t*);
int vf_sem_post(sem_t*);
int vf_sem_wait(sem_t*);
int vf_sem_trywait(sem_t*);
int vf_sem_timedwait(sem_t*, const struct timespec*);
int vf_pthread_create(pthread_t*, const pthread_attr_t*, void* (*)(void*), void*);
int vf_pthread_join(pthread_t, void**);
int vf_sched_yield(void);
int vf_usleep(unsigned);
int vf_clock_gettime(clockid_t, struct timespec*);
long vf_sysconf(int);
int vf_eventfd(unsigned int, int);
int vf_epoll_create1(int);
int vf_epoll_ctl(int, int, int, struct epoll_event*);
int vf_epoll_wait(int, struct epoll_event*, int, int);
ssize_t vf_read(int, void*, size_t);
ssize_t vf_write(int, const void*, size_t);
int vf_close(int);
int vf_getaddrinfo(const char*, const char*, const struct addrinfo*, struct addrinfo**);
void vf_freeaddrinfo(struct addrinfo*);
#ifdef __cplusplus
}
#endif
#define pthread_mutex_init vf_pthread_mutex_init
#define pthread_mutex_destroy vf_pthread_mutex_destroy
#define pthread_mutex_lock vf_pthread_mutex_lock
#define pthread_mutex_trylock vf_pthread_mutex_trylock
#define pthread_mutex_unlock vf_pthread_mutex_unlock
#define pthread_cond_init vf_pthread_cond_init
#define pthread_cond_destroy vf_pthread_cond_destroy
#define pthread_cond_wait vf_pthread_cond_wait
#define pthread_cond_timedwait vf_pthread_cond_timedwait
#define pthread_cond_signal vf_pthread_cond_signal
#define pthread_cond_broadcast vf_pthread_cond_broadcast
#define sem_init vf_sem_init
#define sem_destroy vf_sem_destroy
#define sem_post vf_sem_post
#define sem_wait vf_sem_wait
#define sem_trywait vf_sem_trywait
#define sem_timedwait vf_sem_timedwait
#define pthread_create vf_pthread_create
#define pthread_join vf_pthread_join
#define sched_yield vf_sched_yield
#define usleep vf_usleep
#define clock_gettime vf_clock_gettime
#define sysconf vf_sysconf
#define eventfd vf_eventfd
#define epoll_create1 vf_epoll_create1
#define epoll_ctl vf_epoll_ctl
#define epoll_wait vf_epoll_wait
#define read vf_read
#define write vf_write
#define close vf_close
#define getaddrinfo vf_getaddrinfo
#define freeaddrinfo vf_freeaddrinfo
#endif
