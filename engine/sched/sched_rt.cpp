// Explorer B runtime: serialising scheduler + models of the POSIX primitives libnstd uses + TSan-ABI entry points
// (the library is compiled with -fsanitize=thread --param tsan-distinguish-volatile=1 but linked against THIS file
// instead of libtsan, so every volatile access, atomic operation and redirected libc call is a scheduling point)
// + guard-page allocator + primitive registry.  One execution = one forked child process of sched_main.cpp.
// This translation unit is compiled WITHOUT instrumentation and WITHOUT the renaming shim.
#include <pthread.h>
#include <semaphore.h>
#include <errno.h>
#include <stdio.h>
#include <stdlib.h>
#include <stdarg.h>
#include <string.h>
#include <stdint.h>
#include <unistd.h>
#include <signal.h>
#include <time.h>
#include <sys/mman.h>
#include <sys/syscall.h>
#include <linux/futex.h>
#include <sys/epoll.h>
#include <netdb.h>
#include <sys/eventfd.h>
#include <new>
#include "engine/sched/sched.h"
#include "engine/sched/sched_shared.h"

// ------------------------------------------------------------------------------------------------ shared result
VfShared* vf_shared = 0;          // set by sched_main before fork
VfConfig vf_config;               // copied before fork

static void rt_abort_execution(int status, const char* key, const char* msg);

// ------------------------------------------------------------------------------------------------ threads
enum { T_UNUSED = 0, T_RUNNABLE, T_BLOCKED, T_FINISHED };
enum { B_NONE = 0, B_MUTEX, B_COND, B_SEM, B_JOIN, B_EVENT };
enum { W_NORMAL = 0, W_TIMEOUT, W_SPURIOUS };

struct VThread
{
  int id; int st; int bk;
  pthread_t th;
  volatile int futex;
  const void* bobj;          // object blocked on
  const void* bmutex;        // mutex to re-acquire after a condition wait
  long long deadline;        // absolute virtual ns, -1 = none
  int wake;                  // reason of the last wake-up
  bool condWoken;            // signalled / timed out / spurious: now waits for the mutex
  unsigned long condSeq;     // order of arrival at the condition variable
  void* (*fn)(void*); void* arg; void* ret;
  bool daemon, yielding;
  const void* lastAddr; long long lastVal; int lastKind; unsigned long lastOpCount; int repeat;
  int joinTarget;
  long blockCount;
  unsigned long lastRun;
  unsigned long long hist[64]; int hn; unsigned long histOpCount;
};
struct VMutex { const void* addr; bool live; int type; int owner; int count; };
struct VCond { const void* addr; bool live; unsigned long seq; };
struct VSem { const void* addr; bool live; unsigned count; };

static const int MAXT = 16, MAXP = 512;
static VThread T[MAXT];
static VMutex M[MAXP]; static int nM;
static VCond C[MAXP]; static int nC;
static VSem S[MAXP]; static int nS;
static const void* destroyedPrim[MAXP]; static int nDestroyed;

static struct Rt
{
  bool active;               // scheduling on
  int current;
  int nthreads;
  long long clock;           // virtual ns
  unsigned long opCount;
  long steps;
  int preemptions, deviations;
  int ntaken;
  int allYieldRounds;
} rt;
static __thread VThread* self;

static long sys_futex(volatile int* addr, int op, int val) { return syscall(SYS_futex, addr, op, val, 0, 0, 0); }
static void wake_thread(VThread* t) { __atomic_store_n(&t->futex, 1, __ATOMIC_SEQ_CST); sys_futex(&t->futex, FUTEX_WAKE, 1); }
static void wait_turn(VThread* me)
{
  while(__atomic_load_n(&me->futex, __ATOMIC_SEQ_CST) == 0) sys_futex(&me->futex, FUTEX_WAIT, 0);
  __atomic_store_n(&me->futex, 0, __ATOMIC_SEQ_CST);
}

// ------------------------------------------------------------------------------------------------ reporting
extern "C" void vf_fail(const char* key, const char* msg)
{
  if(!vf_shared) return;
  if(vf_shared->status == VF_OK)
  {
    vf_shared->status = VF_VIOLATION;
    snprintf(vf_shared->key, sizeof(vf_shared->key), "%s", key);
    snprintf(vf_shared->msg, sizeof(vf_shared->msg), "%s", msg);
  }
}
extern "C" void vf_failf(const char* key, const char* fmt, ...)
{
  char buf[512]; va_list ap; va_start(ap, fmt); vsnprintf(buf, sizeof(buf), fmt, ap); va_end(ap);
  vf_fail(key, buf);
}
extern "C" void vf_outcome(const char* fmt, ...)
{
  if(!vf_shared) return;
  size_t n = strlen(vf_shared->outcome);
  if(n + 2 >= sizeof(vf_shared->outcome)) return;
  va_list ap; va_start(ap, fmt); vsnprintf(vf_shared->outcome + n, sizeof(vf_shared->outcome) - n, fmt, ap); va_end(ap);
}
extern "C" void vf_hit(const char* name)
{
  if(!vf_shared) return;
  for(int i = 0; i < VF_MAXCOUNTERS; ++i)
  {
    if(!vf_shared->cname[i][0]) snprintf(vf_shared->cname[i], sizeof(vf_shared->cname[i]), "%s", name);
    if(strcmp(vf_shared->cname[i], name) == 0) { ++vf_shared->cval[i]; return; }
  }
}
extern "C" long long vf_now_ns(void) { return rt.clock; }
extern "C" void vf_set_clock_ns(long long ns) { rt.clock = ns; }
extern "C" int vf_thread_id(void) { return self ? self->id : -1; }
extern "C" void vf_mark_daemon(void) { if(self) self->daemon = true; }
extern "C" void vf_mark_library_threads_daemon(void) { for(int i = 1; i < rt.nthreads; ++i) T[i].daemon = true; }
extern "C" long long vf_step(void) { return (long long)rt.opCount; }
extern "C" long vf_my_block_count(void) { return self ? self->blockCount : 0; }
extern "C" int vf_blocked_threads(void) { int n = 0; for(int i = 0; i < rt.nthreads; ++i) if(T[i].st == T_BLOCKED) ++n; return n; }

static void trace(const char* fmt, ...)
{
  if(!vf_config.trace) return;
  va_list ap; va_start(ap, fmt); vfprintf(stdout, fmt, ap); va_end(ap); fputc('\n', stdout); fflush(stdout);
}

// ------------------------------------------------------------------------------------------------ choices
static int rt_choose(int n, const char* what)
{
  if(n <= 1) return 0;
  VfShared* sh = vf_shared;
  int pos = sh->ntaken;
  if(pos >= VF_MAXCHOICES) rt_abort_execution(VF_HARNESS, "harness:too-many-choices", "more choice points than the explorer can record");
  int c = pos < vf_config.nprefix ? vf_config.prefix[pos] : 0;
  if(c >= n)
  {
    char b[160]; snprintf(b, sizeof(b), "replay divergence at choice %d (%s): recorded alternative %d, only %d offered", pos, what, c, n);
    rt_abort_execution(VF_HARNESS, "harness:replay-divergence", b);
  }
  sh->taken[pos] = (short)c; sh->arity[pos] = (short)n; sh->ntaken = pos + 1;
  // work is split between explorer processes by the position and value of the first non-default choice
  static bool sawNonDefault = false;
  if(c != 0 && !sawNonDefault)
  {
    sawNonDefault = true; sh->sawNonDefault = 1;
    if(vf_config.nshards > 1 && (unsigned)(pos * 7 + c) % (unsigned)vf_config.nshards != (unsigned)vf_config.shard) rt_abort_execution(VF_FOREIGN, "", "");
  }
  return c;
}
extern "C" int vf_env_choice(int n)
{
  if(n <= 1 || rt.deviations >= vf_config.envBound) return 0;
  int c = rt_choose(n, "environment");
  if(c) { ++rt.deviations; trace("  [env] alternative %d", c); }
  return c;
}

// ------------------------------------------------------------------------------------------------ primitive tables
static bool wasDestroyed(const void* a) { for(int i = 0; i < nDestroyed; ++i) if(destroyedPrim[i] == a) return true; return false; }
static void markDestroyed(const void* a) { if(nDestroyed < MAXP) destroyedPrim[nDestroyed++] = a; }
static void unmarkDestroyed(const void* a) { for(int i = 0; i < nDestroyed; ++i) if(destroyedPrim[i] == a) { destroyedPrim[i] = destroyedPrim[--nDestroyed]; return; } }
static void primFault(const char* what, const char* op, const void* a)
{
  vf_failf("primitive:use-after-destroy", "%s on a %s that has been destroyed (or never initialised) [thread %d]", op, what, self ? self->id : -1);
  (void)a;
}
static VMutex* getMutex(const void* a, const char* op)
{
  for(int i = 0; i < nM; ++i) if(M[i].addr == a && M[i].live) return &M[i];
  if(wasDestroyed(a)) primFault("mutex", op, a);
  if(nM >= MAXP) rt_abort_execution(VF_HARNESS, "harness:table-full", "mutex table full");
  VMutex* m = &M[nM++]; m->addr = a; m->live = true; m->type = PTHREAD_MUTEX_NORMAL; m->owner = -1; m->count = 0;   // statically initialised
  return m;
}
static VCond* getCond(const void* a, const char* op)
{
  for(int i = 0; i < nC; ++i) if(C[i].addr == a && C[i].live) return &C[i];
  if(wasDestroyed(a)) primFault("condition variable", op, a);
  if(nC >= MAXP) rt_abort_execution(VF_HARNESS, "harness:table-full", "cond table full");
  VCond* c = &C[nC++]; c->addr = a; c->live = true; c->seq = 0;
  return c;
}
static VSem* getSem(const void* a, const char* op)
{
  for(int i = 0; i < nS; ++i) if(S[i].addr == a && S[i].live) return &S[i];
  if(wasDestroyed(a)) primFault("semaphore", op, a);
  if(nS >= MAXP) rt_abort_execution(VF_HARNESS, "harness:table-full", "sem table full");
  VSem* s = &S[nS++]; s->addr = a; s->live = true; s->count = 0;
  return s;
}

// ------------------------------------------------------------------------------------------------ scheduler core
static unsigned long long vf_eventfd_counter(int fd);
static bool vf_epoll_has_ready(int epfd);
static bool mutexFreeFor(const VMutex* m, int tid) { return m->owner == -1 || (m->owner == tid && m->type == PTHREAD_MUTEX_RECURSIVE); }
static bool enabled(VThread* t)
{
  if(t->st == T_RUNNABLE) return true;
  if(t->st != T_BLOCKED) return false;
  switch(t->bk)
  {
  case B_MUTEX: { VMutex* m = getMutex(t->bobj, "lock"); return mutexFreeFor(m, t->id); }
  case B_COND: if(!t->condWoken) return false; { VMutex* m = getMutex(t->bmutex, "lock"); return mutexFreeFor(m, t->id); }
  case B_SEM: return t->wake == W_TIMEOUT || getSem(t->bobj, "wait")->count > 0;
  case B_JOIN: return T[t->joinTarget].st == T_FINISHED;
  case B_EVENT:
  {
    if(t->wake == W_TIMEOUT) return true;
    int fd = (int)(uintptr_t)t->bobj;
    if(fd >= 100000 && fd < 200000) return vf_eventfd_counter(fd) > 0;
    return vf_epoll_has_ready(fd);
  }
  }
  return false;
}

static void finish_execution(int status, const char* key, const char* msg)
{
  if(status != VF_OK && vf_shared->status == VF_OK) { vf_shared->status = status; snprintf(vf_shared->key, sizeof(vf_shared->key), "%s", key); snprintf(vf_shared->msg, sizeof(vf_shared->msg), "%s", msg); }
  rt.active = false;
  vf_shared->steps = rt.steps;
  vf_shared->preemptions = rt.preemptions; vf_shared->deviations = rt.deviations;
  vf_shared->finished = 1;
  if(!vf_shared->sawNonDefault && vf_config.nshards > 1 && vf_config.shard != 0) vf_shared->status = VF_FOREIGN;   // the all-default execution belongs to shard 0
  fflush(stdout);
  _exit(0);     // ends every thread of this execution
}
static void park_forever() { for(;;) pause(); }

static void rt_abort_execution(int status, const char* key, const char* msg)
{
  if(vf_shared) { vf_shared->status = status; snprintf(vf_shared->key, sizeof(vf_shared->key), "%s", key); snprintf(vf_shared->msg, sizeof(vf_shared->msg), "%s", msg); vf_shared->steps = rt.steps; }
  _exit(status == VF_FOREIGN ? 0 : 1);
}

static const char* blockName(VThread* t)
{
  static char b[64];
  static const char* n[] = {"?", "mutex", "condition variable", "semaphore", "join", "event"};
  snprintf(b, sizeof(b), "thread %d on %s", t->id, n[t->bk]);
  return b;
}

// Decide who runs next.  meCanContinue: the calling thread can execute its next operation.
static void pick_next(bool meCanContinue)
{
  VThread* me = self;
  for(;;)
  {
    // the scenario's main thread has returned and only threads the scenario declared to be the library's own background threads are
    // left: that is the end of the process, whatever those threads are doing (an idle worker of the global pool may be polling)
    if(T[0].st == T_FINISHED)
    {
      bool onlyDaemons = true;
      for(int i = 1; i < rt.nthreads; ++i) if(T[i].st != T_FINISHED && T[i].st != T_UNUSED && !T[i].daemon) onlyDaemons = false;
      if(onlyDaemons) finish_execution(VF_OK, "", "");
    }
    int cand[2 * MAXT + 4]; int kind[2 * MAXT + 4]; int n = 0;   // kind 0 = run thread, 1 = spurious wake, 2 = timeout fires
    // a blocked caller whose own condition has become true (e.g. its timeout fired while everybody else is blocked) can go on
    bool meUnblocked = !meCanContinue && me->st == T_BLOCKED && enabled(me);
    bool free = !meCanContinue || me->yielding;                  // leaving the current thread costs no preemption
    bool mayPreempt = free || rt.preemptions < vf_config.preemptionBound;
    int enabledOthers = 0;
    for(int i = 0; i < rt.nthreads; ++i) if(&T[i] != me && enabled(&T[i])) ++enabledOthers;
    if(meCanContinue && !me->yielding) { cand[n] = me->id; kind[n++] = 0; }
    int firstOther = n;
    if(meCanContinue && me->yielding)
    { // a spinning / yielding thread hands over without branching: the enabled thread that ran least recently goes on (fairness);
      // every other order is still reachable through preemptions of the threads that make progress
      int best = -1;
      for(int i = 0; i < rt.nthreads; ++i) if(&T[i] != me && enabled(&T[i]) && !T[i].yielding && (best < 0 || T[i].lastRun < T[best].lastRun)) best = i;
      if(best >= 0) { cand[n] = best; kind[n++] = 0; }
    }
    else if(!meCanContinue && vf_config.delayBounded)
    { // delay bounding: when the running thread blocks or ends, the default successor is the next enabled thread in
      // round-robin order; any other successor costs one unit of the budget
      int def = -1;
      for(int k = 1; k <= rt.nthreads; ++k) { int i = (me->id + k) % rt.nthreads; if(&T[i] != me && enabled(&T[i]) && !T[i].yielding) { def = i; break; } }
      if(def >= 0)
      {
        cand[n] = def; kind[n++] = 0;
        if(rt.preemptions < vf_config.preemptionBound)
          for(int i = 0; i < rt.nthreads; ++i) if(&T[i] != me && i != def && enabled(&T[i]) && !T[i].yielding) { cand[n] = i; kind[n++] = 0; }
      }
    }
    else if(mayPreempt)
      for(int i = 0; i < rt.nthreads; ++i) if(&T[i] != me && enabled(&T[i]) && !T[i].yielding) { cand[n] = i; kind[n++] = 0; }
    if(meUnblocked) { cand[n] = me->id; kind[n++] = 0; }
    if(n == 0)
    { // only spinning / yielding threads can run: fair rotation without branching (the one that ran least recently)
      int best = -1;
      for(int i = 0; i < rt.nthreads; ++i)
      {
        VThread* t = &T[i];
        bool can = (t == me) ? meCanContinue : enabled(t);
        if(can && t->yielding && (best < 0 || t->lastRun < T[best].lastRun)) best = i;
      }
      if(best >= 0) { cand[n] = best; kind[n++] = 0; }
    }
    int nThreads = n;
    if(nThreads == 0 && enabledOthers == 0)
    {
      // nobody can run: virtual time advances to the earliest deadline of a timed wait
      int best = -1;
      for(int i = 0; i < rt.nthreads; ++i) if(T[i].st == T_BLOCKED && T[i].deadline >= 0 && T[i].wake != W_TIMEOUT && !(T[i].bk == B_COND && T[i].condWoken) && (best < 0 || T[i].deadline < T[best].deadline)) best = i;
      if(best >= 0)
      {
        if(rt.clock < T[best].deadline) rt.clock = T[best].deadline;
        T[best].wake = W_TIMEOUT; if(T[best].bk == B_COND) T[best].condWoken = true;
        trace("  [time] clock advances to %lld: timeout of thread %d fires", rt.clock, best);
        continue;
      }
      bool stuck = false; char who[256]; who[0] = 0;
      for(int i = 0; i < rt.nthreads; ++i) if(T[i].st == T_BLOCKED && !T[i].daemon) { stuck = true; size_t l = strlen(who); snprintf(who + l, sizeof(who) - l, "%s%s", l ? ", " : "", blockName(&T[i])); }
      if(stuck) { char m[400]; snprintf(m, sizeof(m), "deadlock: no thread can run; blocked: %s", who); finish_execution(VF_VIOLATION, "deadlock", m); }
      finish_execution(VF_OK, "", "");
    }
    // environment alternatives: spurious wake-ups and timeouts that fire "now" (each costs one deviation)
    if(rt.deviations < vf_config.envBound)
      for(int i = 0; i < rt.nthreads; ++i)
      {
        VThread* t = &T[i];
        if(t->st != T_BLOCKED || t == me) continue;
        if(t->bk == B_COND && !t->condWoken && vf_config.spurious) { cand[n] = i; kind[n++] = 1; }
        if(t->deadline >= 0 && t->wake != W_TIMEOUT && !(t->bk == B_COND && t->condWoken)) { cand[n] = i; kind[n++] = 2; }
      }
    int offered = n;
    if(nThreads == 1 && T[cand[0]].yielding)
    { // livelock detection: only spinners have been able to run for many consecutive decisions
      if(++rt.allYieldRounds > vf_config.livelockRounds)
      { // real time passes while a thread polls: before this is called a livelock, the earliest pending timeout fires
        int best = -1;
        for(int i = 0; i < rt.nthreads; ++i) if(T[i].st == T_BLOCKED && T[i].deadline >= 0 && T[i].wake != W_TIMEOUT && !(T[i].bk == B_COND && T[i].condWoken) && (best < 0 || T[i].deadline < T[best].deadline)) best = i;
        if(best >= 0)
        {
          if(rt.clock < T[best].deadline) rt.clock = T[best].deadline;
          T[best].wake = W_TIMEOUT; if(T[best].bk == B_COND) T[best].condWoken = true;
          trace("  [time] only polling threads can run; clock advances to %lld: timeout of thread %d fires", rt.clock, best);
          rt.allYieldRounds = 0;
          continue;
        }
        finish_execution(VF_VIOLATION, "livelock", "only spinning/yielding threads can run and none makes progress");
      }
    }
    else rt.allYieldRounds = 0;
    int c = rt_choose(offered, "schedule");
    if(kind[c] == 1) { ++rt.deviations; T[cand[c]].wake = W_SPURIOUS; T[cand[c]].condWoken = true; trace("  [env] spurious wake-up of thread %d", cand[c]); continue; }
    if(kind[c] == 2)
    {
      ++rt.deviations; VThread* t = &T[cand[c]];
      if(rt.clock < t->deadline) rt.clock = t->deadline;
      t->wake = W_TIMEOUT; if(t->bk == B_COND) t->condWoken = true;
      trace("  [env] timeout of thread %d fires (clock %lld)", t->id, rt.clock);
      continue;
    }
    VThread* next = &T[cand[c]];
    if(next != me && meCanContinue && !me->yielding && c >= firstOther) ++rt.preemptions;
    else if(!meCanContinue && vf_config.delayBounded && c > 0 && kind[c] == 0) ++rt.preemptions;
    if(next == me) return;
    trace("  [switch] thread %d -> thread %d", me->id, next->id);
    rt.current = next->id;
    wake_thread(next);
    if(me->st == T_FINISHED) return;      // the finished thread's OS thread just ends
    wait_turn(me);
    return;
  }
}

// a visible operation of the running thread is about to happen
static long long peek(const void* a, int n);
static void point(int opkind, const void* addr, int size = 0)
{
  if(!rt.active || !self) return;
  VThread* me = self;
  if(++rt.steps > vf_config.horizon) { finish_execution(VF_VIOLATION, "horizon", "execution exceeded the step horizon (non-terminating or livelocked)"); park_forever(); }
  pick_next(true);
  if(vf_config.trace)
  {
    static const char* names[] = {"lock", "trylock", "unlock", "cond-wait", "cond-signal", "cond-broadcast", "sem-post", "sem-wait", "sem-trywait", "thread-create", "join", "yield", "sleep", "init", "destroy", "atomic", "volatile-read", "volatile-write", "plain"};
    trace("  t%d %s %p", me->id, opkind >= 100 && opkind <= 118 ? names[opkind - 100] : "?", addr);
  }
  // the thread performs its operation now: others stop being considered as "spinning without competition"
  // cycle detection: a thread that repeats the same sequence of operations on unchanged memory while nobody else runs
  // is spinning (e.g. a retry loop around a flag another thread is about to change); it yields to the others
  {
    unsigned long long sig = (unsigned long long)opkind * 1000003ULL ^ (unsigned long long)(uintptr_t)addr * 0x9E3779B97F4A7C15ULL;
    if(size > 0 && size <= 8 && addr) sig ^= (unsigned long long)peek(addr, size) * 0xC2B2AE3D27D4EB4FULL + 1;
    if(me->histOpCount != rt.opCount) me->hn = 0;     // somebody else ran in between
    if(me->hn == 64) { memmove(me->hist, me->hist + 32, 32 * sizeof(me->hist[0])); me->hn = 32; }
    me->hist[me->hn++] = sig;
    for(int p = 1; p <= 24 && 2 * p <= me->hn; ++p)
      if(memcmp(me->hist + me->hn - p, me->hist + me->hn - 2 * p, p * sizeof(me->hist[0])) == 0) { if(p > 1 || me->hn >= 3) me->yielding = true; break; }
  }
  ++rt.opCount;
  me->histOpCount = rt.opCount;
  me->lastRun = rt.opCount;
  if(!me->yielding) for(int i = 0; i < rt.nthreads; ++i) if(&T[i] != me) T[i].yielding = false;
}
// spin detection: the same operation on the same address with the same result, nobody else in between
static void observed(int opkind, const void* addr, long long val)
{
  if(!rt.active || !self) return;
  VThread* me = self;
  if(me->lastKind == opkind && me->lastAddr == addr && me->lastVal == val && me->lastOpCount + 1 == rt.opCount) { if(++me->repeat >= 2) me->yielding = true; }
  else { me->repeat = 0; me->yielding = false; }
  me->lastKind = opkind; me->lastAddr = addr; me->lastVal = val; me->lastOpCount = rt.opCount;
}
static void block(int bk, const void* obj)
{
  VThread* me = self;
  me->st = T_BLOCKED; me->bk = bk; me->bobj = obj;
  ++me->blockCount;
  pick_next(false);
  // scheduled again: the caller re-checks its condition
  me->st = T_RUNNABLE; me->bk = B_NONE;
}

// ------------------------------------------------------------------------------------------------ pthread models
enum { OP_LOCK = 100, OP_TRYLOCK, OP_UNLOCK, OP_CWAIT, OP_CSIGNAL, OP_CBROADCAST, OP_SPOST, OP_SWAIT, OP_STRY, OP_CREATE, OP_JOIN, OP_YIELD, OP_SLEEP, OP_INIT, OP_DESTROY, OP_ATOMIC, OP_VREAD, OP_VWRITE, OP_PLAIN };

extern "C" int vf_pthread_mutex_init(pthread_mutex_t* m, const pthread_mutexattr_t* a)
{
  int type = PTHREAD_MUTEX_NORMAL;
  if(a) pthread_mutexattr_gettype(a, &type);
  for(int i = 0; i < nM; ++i) if(M[i].addr == m && M[i].live) { M[i].type = type; M[i].owner = -1; M[i].count = 0; return 0; }
  unmarkDestroyed(m);
  if(nM >= MAXP) rt_abort_execution(VF_HARNESS, "harness:table-full", "mutex table full");
  VMutex* v = &M[nM++]; v->addr = m; v->live = true; v->type = type; v->owner = -1; v->count = 0;
  return 0;
}
extern "C" int vf_pthread_mutex_destroy(pthread_mutex_t* m)
{
  point(OP_DESTROY, m);
  VMutex* v = getMutex(m, "destroy");
  if(v->owner != -1) vf_failf("primitive:destroy-locked-mutex", "a mutex is destroyed while thread %d holds it", v->owner);
  for(int i = 0; i < rt.nthreads; ++i) if(T[i].st == T_BLOCKED && ((T[i].bk == B_MUTEX && T[i].bobj == m) || (T[i].bk == B_COND && T[i].bmutex == m))) vf_failf("primitive:destroy-mutex-with-waiters", "a mutex is destroyed while thread %d waits for it", i);
  v->live = false; markDestroyed(m);
  return 0;
}
static void acquire(VMutex* v, const void* addr)
{
  VThread* me = self;
  while(!mutexFreeFor(v, me->id)) { block(B_MUTEX, addr); v = getMutex(addr, "lock"); }
  v->owner = me->id; ++v->count;
}
extern "C" int vf_pthread_mutex_lock(pthread_mutex_t* m)
{
  if(!rt.active || !self) return 0;
  point(OP_LOCK, m);
  VMutex* v = getMutex(m, "lock");
  if(v->owner == self->id && v->type == PTHREAD_MUTEX_ERRORCHECK) return EDEADLK;
  acquire(v, m);
  return 0;
}
extern "C" int vf_pthread_mutex_trylock(pthread_mutex_t* m)
{
  if(!rt.active || !self) return 0;
  point(OP_TRYLOCK, m);
  VMutex* v = getMutex(m, "trylock");
  if(!mutexFreeFor(v, self->id)) { observed(OP_TRYLOCK, m, EBUSY); return EBUSY; }
  v->owner = self->id; ++v->count;
  return 0;
}
extern "C" int vf_pthread_mutex_unlock(pthread_mutex_t* m)
{
  if(!rt.active || !self) return 0;
  point(OP_UNLOCK, m);
  VMutex* v = getMutex(m, "unlock");
  if(v->owner != self->id) { vf_failf("primitive:unlock-not-owner", "thread %d unlocks a mutex owned by %d", self->id, v->owner); return EPERM; }
  if(--v->count == 0) v->owner = -1;
  return 0;
}
extern "C" int vf_pthread_cond_init(pthread_cond_t* c, const pthread_condattr_t*)
{
  for(int i = 0; i < nC; ++i) if(C[i].addr == c && C[i].live) return 0;
  unmarkDestroyed(c);
  if(nC >= MAXP) rt_abort_execution(VF_HARNESS, "harness:table-full", "cond table full");
  VCond* v = &C[nC++]; v->addr = c; v->live = true; v->seq = 0;
  return 0;
}
extern "C" int vf_pthread_cond_destroy(pthread_cond_t* c)
{
  point(OP_DESTROY, c);
  VCond* v = getCond(c, "destroy");
  for(int i = 0; i < rt.nthreads; ++i) if(T[i].st == T_BLOCKED && T[i].bk == B_COND && T[i].bobj == c && !T[i].condWoken) vf_failf("primitive:destroy-cond-with-waiters", "a condition variable is destroyed while thread %d waits on it", i);
  v->live = false; markDestroyed(c);
  return 0;
}
static int cond_wait_common(pthread_cond_t* c, pthread_mutex_t* m, long long deadline)
{
  VThread* me = self;
  point(OP_CWAIT, c);
  VCond* vc = getCond(c, "wait");
  VMutex* vm = getMutex(m, "wait");
  if(vm->owner != me->id) { vf_failf("primitive:cond-wait-without-mutex", "thread %d waits on a condition variable without holding the mutex", me->id); return EPERM; }
  int saved = vm->count; vm->count = 0; vm->owner = -1;
  me->condWoken = false; me->wake = W_NORMAL; me->bmutex = m; me->deadline = deadline; me->condSeq = ++vc->seq;
  if(deadline >= 0 && deadline <= rt.clock) { me->condWoken = true; me->wake = W_TIMEOUT; }
  for(;;)
  {
    block(B_COND, c);
    vm = getMutex(m, "wait");
    if(me->condWoken && mutexFreeFor(vm, me->id)) break;
  }
  vm->owner = me->id; vm->count = saved;
  me->deadline = -1; me->bmutex = 0;
  int r = me->wake == W_TIMEOUT ? ETIMEDOUT : 0;
  if(me->wake == W_SPURIOUS) vf_hit("spurious_wakeups_delivered");
  if(me->wake == W_TIMEOUT) vf_hit("timeouts_delivered");
  return r;
}
extern "C" int vf_pthread_cond_wait(pthread_cond_t* c, pthread_mutex_t* m) { if(!rt.active || !self) return 0; return cond_wait_common(c, m, -1); }
extern "C" int vf_pthread_cond_timedwait(pthread_cond_t* c, pthread_mutex_t* m, const struct timespec* ts)
{
  if(!rt.active || !self) return 0;
  if(ts->tv_nsec < 0 || ts->tv_nsec >= 1000000000L) { vf_hit("timedwait_einval"); return EINVAL; }
  return cond_wait_common(c, m, (long long)ts->tv_sec * 1000000000LL + ts->tv_nsec);
}
static void cond_wake(pthread_cond_t* c, bool all)
{
  for(;;)
  {
    int best = -1;
    for(int i = 0; i < rt.nthreads; ++i) if(T[i].st == T_BLOCKED && T[i].bk == B_COND && T[i].bobj == c && !T[i].condWoken && (best < 0 || T[i].condSeq < T[best].condSeq)) best = i;
    if(best < 0) return;
    T[best].condWoken = true; T[best].wake = W_NORMAL;
    if(!all) return;
  }
}
extern "C" int vf_pthread_cond_signal(pthread_cond_t* c) { if(!rt.active || !self) return 0; point(OP_CSIGNAL, c); getCond(c, "signal"); cond_wake(c, false); return 0; }
extern "C" int vf_pthread_cond_broadcast(pthread_cond_t* c) { if(!rt.active || !self) return 0; point(OP_CBROADCAST, c); getCond(c, "broadcast"); cond_wake(c, true); return 0; }

extern "C" int vf_sem_init(sem_t* s, int, unsigned value)
{
  for(int i = 0; i < nS; ++i) if(S[i].addr == s && S[i].live) { S[i].count = value; return 0; }
  unmarkDestroyed(s);
  if(nS >= MAXP) rt_abort_execution(VF_HARNESS, "harness:table-full", "sem table full");
  VSem* v = &S[nS++]; v->addr = s; v->live = true; v->count = value;
  return 0;
}
extern "C" int vf_sem_destroy(sem_t* s)
{
  point(OP_DESTROY, s);
  VSem* v = getSem(s, "destroy");
  for(int i = 0; i < rt.nthreads; ++i) if(T[i].st == T_BLOCKED && T[i].bk == B_SEM && T[i].bobj == s) vf_failf("primitive:destroy-sem-with-waiters", "a semaphore is destroyed while thread %d waits on it", i);
  v->live = false; markDestroyed(s);
  return 0;
}
extern "C" int vf_sem_post(sem_t* s) { if(!rt.active || !self) return 0; point(OP_SPOST, s); ++getSem(s, "post")->count; return 0; }
static int sem_wait_common(sem_t* s, long long deadline)
{
  VThread* me = self;
  point(OP_SWAIT, s);
  VSem* v = getSem(s, "wait");
  me->deadline = deadline; me->wake = W_NORMAL;
  while(v->count == 0)
  {
    if(deadline >= 0 && (deadline <= rt.clock || me->wake == W_TIMEOUT)) { me->deadline = -1; errno = ETIMEDOUT; vf_hit("timeouts_delivered"); return -1; }
    block(B_SEM, s);
    v = getSem(s, "wait");
  }
  --v->count; me->deadline = -1;
  return 0;
}
extern "C" int vf_sem_wait(sem_t* s)
{
  if(!rt.active || !self) return 0;
  // environment deviation as in vf_sem_timedwait: interrupted by a signal handler while it would have been blocked
  if(vf_config.spurious && getSem(s, "wait")->count == 0 && vf_env_choice(2) == 1) { vf_hit("eintr_delivered"); errno = EINTR; return -1; }
  return sem_wait_common(s, -1);
}
extern "C" int vf_sem_timedwait(sem_t* s, const struct timespec* ts)
{
  if(!rt.active || !self) return 0;
  if(ts->tv_nsec < 0 || ts->tv_nsec >= 1000000000L) { vf_hit("timedwait_einval"); errno = EINVAL; return -1; }
  // environment deviation: a signal handler ran while the caller would have been blocked (POSIX: EINTR, the count is untouched)
  if(vf_config.spurious && getSem(s, "wait")->count == 0 && vf_env_choice(2) == 1) { vf_hit("eintr_delivered"); errno = EINTR; return -1; }
  return sem_wait_common(s, (long long)ts->tv_sec * 1000000000LL + ts->tv_nsec);
}
extern "C" int vf_sem_trywait(sem_t* s)
{
  if(!rt.active || !self) return 0;
  point(OP_STRY, s);
  VSem* v = getSem(s, "trywait");
  if(v->count == 0) { observed(OP_STRY, s, 0); errno = EAGAIN; return -1; }
  --v->count; return 0;
}

// ------------------------------------------------------------------------------------------------ threads
static void thread_finished()
{
  VThread* me = self;
  me->st = T_FINISHED;
  trace("  [exit] thread %d finished", me->id);
  pick_next(false);
}
static void* trampoline(void* p)
{
  VThread* me = (VThread*)p;
  self = me;
  wait_turn(me);
  me->ret = me->fn(me->arg);
  thread_finished();
  return 0;
}
extern "C" int vf_pthread_create(pthread_t* th, const pthread_attr_t*, void* (*fn)(void*), void* arg)
{
  if(!rt.active || !self) return EAGAIN;
  point(OP_CREATE, 0);
  if(rt.nthreads >= MAXT) rt_abort_execution(VF_HARNESS, "harness:too-many-threads", "more threads than the scheduler supports");
  VThread* t = &T[rt.nthreads];
  memset(t, 0, sizeof(*t));
  t->id = rt.nthreads; t->st = T_RUNNABLE; t->fn = fn; t->arg = arg; t->deadline = -1; t->joinTarget = -1;
  ++rt.nthreads;
  pthread_attr_t a; pthread_attr_init(&a); pthread_attr_setstacksize(&a, 256 * 1024);
  if(pthread_create(&t->th, &a, trampoline, t) != 0) rt_abort_execution(VF_HARNESS, "harness:pthread_create", "cannot create OS thread");
  pthread_attr_destroy(&a);
  *th = (pthread_t)(uintptr_t)(t->id + 1000);
  vf_hit("threads_created");
  return 0;
}
extern "C" int vf_pthread_join(pthread_t th, void** ret)
{
  if(!rt.active || !self) return 0;
  int id = (int)(uintptr_t)th - 1000;
  if(id < 0 || id >= rt.nthreads) { vf_failf("primitive:join-invalid-thread", "join of an invalid thread handle"); return ESRCH; }
  point(OP_JOIN, &T[id]);
  VThread* me = self;
  me->joinTarget = id;
  while(T[id].st != T_FINISHED) block(B_JOIN, &T[id]);
  if(ret) *ret = T[id].ret;
  return 0;
}
extern "C" int vf_sched_yield(void)
{
  if(!rt.active || !self) return 0;
  self->yielding = true;
  point(OP_YIELD, 0);
  return 0;
}
extern "C" int vf_usleep(unsigned us)
{
  if(!rt.active || !self) return 0;
  rt.clock += (long long)us * 1000;
  self->yielding = true;
  point(OP_SLEEP, 0);
  return 0;
}
// name resolution never leaves the process: every name is unknown (a visible step, so that the resolving thread can be overtaken)
extern "C" int vf_getaddrinfo(const char*, const char*, const struct addrinfo*, struct addrinfo** res)
{
  if(rt.active && self) point(OP_YIELD, 0);
  if(res) *res = 0;
  return EAI_NONAME;
}
extern "C" void vf_freeaddrinfo(struct addrinfo*) {}
extern "C" int vf_clock_gettime(clockid_t, struct timespec* ts)
{
  long long c = rt.clock;
  ts->tv_sec = c / 1000000000LL; ts->tv_nsec = c % 1000000000LL;
  return 0;
}
extern "C" long vf_sysconf(int name)
{
  if(name == _SC_NPROCESSORS_ONLN || name == _SC_NPROCESSORS_CONF) return vf_config.processors;
  return sysconf(name);
}

// ------------------------------------------------------------------------------------------------ event descriptor + epoll model
// Only event descriptors are modelled (the cross-thread wake-up of Server::interrupt); every other descriptor is real.
struct VEventFd { bool live; unsigned long long counter; };
struct VEpollReg { int epfd, fd; struct epoll_event ev; bool live; };
static VEventFd EFD[32]; static int nEfd;
static VEpollReg EREG[64]; static int nEreg;
static const int EFD_BASE = 100000, EPFD_BASE = 200000;
static bool isEfd(int fd) { return fd >= EFD_BASE && fd < EFD_BASE + nEfd; }
static bool isEpfd(int fd) { return fd >= EPFD_BASE && fd < EPFD_BASE + 64; }
static int nEpfd;
extern "C" int vf_eventfd(unsigned int init, int)
{
  if(nEfd >= 32) rt_abort_execution(VF_HARNESS, "harness:table-full", "eventfd table full");
  EFD[nEfd].live = true; EFD[nEfd].counter = init;
  return EFD_BASE + nEfd++;
}
extern "C" int vf_epoll_create1(int) { return EPFD_BASE + nEpfd++; }
extern "C" int vf_epoll_ctl(int epfd, int op, int fd, struct epoll_event* ev)
{
  if(!isEpfd(epfd)) return epoll_ctl(epfd, op, fd, ev);
  for(int i = 0; i < nEreg; ++i) if(EREG[i].live && EREG[i].epfd == epfd && EREG[i].fd == fd)
  {
    if(op == EPOLL_CTL_DEL) EREG[i].live = false; else EREG[i].ev = *ev;
    return 0;
  }
  if(op == EPOLL_CTL_DEL) { errno = ENOENT; return -1; }
  if(nEreg >= 64) rt_abort_execution(VF_HARNESS, "harness:table-full", "epoll registration table full");
  EREG[nEreg].epfd = epfd; EREG[nEreg].fd = fd; EREG[nEreg].ev = *ev; EREG[nEreg].live = true; ++nEreg;
  return 0;
}
static int epollReady(int epfd, struct epoll_event* events, int maxevents)
{
  int n = 0;
  for(int i = 0; i < nEreg && n < maxevents; ++i)
    if(EREG[i].live && EREG[i].epfd == epfd && isEfd(EREG[i].fd) && EFD[EREG[i].fd - EFD_BASE].counter > 0 && (EREG[i].ev.events & EPOLLIN))
    { events[n].events = EPOLLIN; events[n].data = EREG[i].ev.data; ++n; }
  return n;
}
extern "C" int vf_epoll_wait(int epfd, struct epoll_event* events, int maxevents, int timeout)
{
  if(!isEpfd(epfd)) return epoll_wait(epfd, events, maxevents, timeout);
  if(!rt.active || !self) return epollReady(epfd, events, maxevents);
  VThread* me = self;
  point(OP_SWAIT, (const void*)(uintptr_t)epfd);
  me->deadline = timeout < 0 ? -1 : rt.clock + (long long)timeout * 1000000LL; me->wake = W_NORMAL;
  for(;;)
  {
    int n = epollReady(epfd, events, maxevents);
    if(n > 0) { me->deadline = -1; return n; }
    if(timeout == 0 || me->wake == W_TIMEOUT || (me->deadline >= 0 && me->deadline <= rt.clock)) { me->deadline = -1; return 0; }
    me->bobj = (const void*)(uintptr_t)epfd;
    block(B_EVENT, (const void*)(uintptr_t)epfd);
  }
}
extern "C" ssize_t vf_read(int fd, void* buf, size_t n)
{
  if(!isEfd(fd)) return read(fd, buf, n);
  if(rt.active && self) point(OP_SWAIT, (const void*)(uintptr_t)fd);
  VEventFd& e = EFD[fd - EFD_BASE];
  if(n < 8) { errno = EINVAL; return -1; }
  while(e.counter == 0) { if(!rt.active || !self) { errno = EAGAIN; return -1; } block(B_EVENT, (const void*)(uintptr_t)fd); }
  unsigned long long v = e.counter; e.counter = 0;
  memcpy(buf, &v, 8);
  return 8;
}
extern "C" ssize_t vf_write(int fd, const void* buf, size_t n)
{
  if(!isEfd(fd)) return write(fd, buf, n);
  if(rt.active && self) point(OP_SPOST, (const void*)(uintptr_t)fd);
  if(n < 8) { errno = EINVAL; return -1; }
  unsigned long long v; memcpy(&v, buf, 8);
  EFD[fd - EFD_BASE].counter += v;
  return 8;
}
extern "C" int vf_close(int fd)
{
  if(isEfd(fd)) { EFD[fd - EFD_BASE].live = false; return 0; }
  if(isEpfd(fd)) { for(int i = 0; i < nEreg; ++i) if(EREG[i].epfd == fd) EREG[i].live = false; return 0; }
  return close(fd);
}

static unsigned long long vf_eventfd_counter(int fd) { return EFD[fd - EFD_BASE].counter; }
static bool vf_epoll_has_ready(int epfd) { struct epoll_event ev[1]; return epollReady(epfd, ev, 1) > 0; }

// ------------------------------------------------------------------------------------------------ TSan ABI
#define RT_EXPORT extern "C" __attribute__((visibility("default")))
RT_EXPORT void __tsan_init() {}
RT_EXPORT void __tsan_func_entry(void*) {}
RT_EXPORT void __tsan_func_exit() {}
RT_EXPORT void __tsan_vptr_update(void**, void*) {}
RT_EXPORT void __tsan_vptr_read(void**) {}
static inline void plain(void* a) { if(vf_config.plainPoints) point(OP_PLAIN, a); }
#define PLAIN(N) RT_EXPORT void __tsan_read##N(void* a) { plain(a); } RT_EXPORT void __tsan_write##N(void* a) { plain(a); } \
  RT_EXPORT void __tsan_unaligned_read##N(void* a) { plain(a); } RT_EXPORT void __tsan_unaligned_write##N(void* a) { plain(a); }
PLAIN(1) PLAIN(2) PLAIN(4) PLAIN(8) PLAIN(16)
RT_EXPORT void __tsan_read_range(void*, unsigned long) {}
RT_EXPORT void __tsan_write_range(void*, unsigned long) {}
static long long peek(const void* a, int n)
{
  switch(n) { case 1: return *(const volatile uint8_t*)a; case 2: return *(const volatile uint16_t*)a; case 4: return *(const volatile uint32_t*)a; case 8: return (long long)*(const volatile uint64_t*)a; }
  return 0;
}
#define VOL(N) RT_EXPORT void __tsan_volatile_read##N(void* a) { if(!rt.active || !self) return; point(OP_VREAD, a, N); observed(OP_VREAD, a, peek(a, N)); } \
  RT_EXPORT void __tsan_volatile_write##N(void* a) { if(!rt.active || !self) return; point(OP_VWRITE, a, N); } \
  RT_EXPORT void __tsan_unaligned_volatile_read##N(void* a) { if(!rt.active || !self) return; point(OP_VREAD, a, N); observed(OP_VREAD, a, peek(a, N)); } \
  RT_EXPORT void __tsan_unaligned_volatile_write##N(void* a) { if(!rt.active || !self) return; point(OP_VWRITE, a, N); }
VOL(1) VOL(2) VOL(4) VOL(8) VOL(16)

#define ATOMICS(N, T) \
  RT_EXPORT T __tsan_atomic##N##_load(const volatile T* a, int) { point(OP_ATOMIC, (const void*)a, (int)sizeof(T)); T v = __atomic_load_n(a, __ATOMIC_SEQ_CST); observed(OP_ATOMIC, (const void*)a, (long long)v); return v; } \
  RT_EXPORT void __tsan_atomic##N##_store(volatile T* a, T v, int) { point(OP_ATOMIC, (const void*)a, (int)sizeof(T)); __atomic_store_n(a, v, __ATOMIC_SEQ_CST); } \
  RT_EXPORT T __tsan_atomic##N##_exchange(volatile T* a, T v, int) { point(OP_ATOMIC, (const void*)a, (int)sizeof(T)); T o = __atomic_exchange_n(a, v, __ATOMIC_SEQ_CST); if(o == v) observed(OP_ATOMIC + 1, (const void*)a, (long long)o); return o; } \
  RT_EXPORT T __tsan_atomic##N##_fetch_add(volatile T* a, T v, int) { point(OP_ATOMIC, (const void*)a, (int)sizeof(T)); return __atomic_fetch_add(a, v, __ATOMIC_SEQ_CST); } \
  RT_EXPORT T __tsan_atomic##N##_fetch_sub(volatile T* a, T v, int) { point(OP_ATOMIC, (const void*)a, (int)sizeof(T)); return __atomic_fetch_sub(a, v, __ATOMIC_SEQ_CST); } \
  RT_EXPORT T __tsan_atomic##N##_fetch_and(volatile T* a, T v, int) { point(OP_ATOMIC, (const void*)a, (int)sizeof(T)); return __atomic_fetch_and(a, v, __ATOMIC_SEQ_CST); } \
  RT_EXPORT T __tsan_atomic##N##_fetch_or(volatile T* a, T v, int) { point(OP_ATOMIC, (const void*)a, (int)sizeof(T)); return __atomic_fetch_or(a, v, __ATOMIC_SEQ_CST); } \
  RT_EXPORT T __tsan_atomic##N##_fetch_xor(volatile T* a, T v, int) { point(OP_ATOMIC, (const void*)a, (int)sizeof(T)); return __atomic_fetch_xor(a, v, __ATOMIC_SEQ_CST); } \
  RT_EXPORT T __tsan_atomic##N##_fetch_nand(volatile T* a, T v, int) { point(OP_ATOMIC, (const void*)a, (int)sizeof(T)); return __atomic_fetch_nand(a, v, __ATOMIC_SEQ_CST); } \
  RT_EXPORT int __tsan_atomic##N##_compare_exchange_strong(volatile T* a, T* c, T v, int, int) { point(OP_ATOMIC, (const void*)a, (int)sizeof(T)); T exp = *c; int ok = __atomic_compare_exchange_n(a, c, v, 0, __ATOMIC_SEQ_CST, __ATOMIC_SEQ_CST); if(!ok) observed(OP_ATOMIC + 2, (const void*)a, (long long)exp); return ok; } \
  RT_EXPORT int __tsan_atomic##N##_compare_exchange_weak(volatile T* a, T* c, T v, int, int) { point(OP_ATOMIC, (const void*)a, (int)sizeof(T)); T exp = *c; int ok = __atomic_compare_exchange_n(a, c, v, 0, __ATOMIC_SEQ_CST, __ATOMIC_SEQ_CST); if(!ok) observed(OP_ATOMIC + 2, (const void*)a, (long long)exp); return ok; } \
  RT_EXPORT T __tsan_atomic##N##_compare_exchange_val(volatile T* a, T c, T v, int, int) { point(OP_ATOMIC, (const void*)a, (int)sizeof(T)); T exp = c; __atomic_compare_exchange_n(a, &exp, v, 0, __ATOMIC_SEQ_CST, __ATOMIC_SEQ_CST); if(exp != c) observed(OP_ATOMIC + 2, (const void*)a, (long long)exp); return exp; }
ATOMICS(8, uint8_t) ATOMICS(16, uint16_t) ATOMICS(32, uint32_t) ATOMICS(64, uint64_t)
RT_EXPORT void __tsan_atomic_thread_fence(int) { if(rt.active && self) point(OP_ATOMIC, 0); }
RT_EXPORT void __tsan_atomic_signal_fence(int) {}

// ------------------------------------------------------------------------------------------------ guard allocator
// Every block ends at a page boundary followed by a PROT_NONE page; delete protects the block's pages and never
// reuses them within the execution: use after free and overflow fault, double delete is detected in the table.
static bool guardOn = false;
struct GBlock { char* base; size_t maplen; void* user; size_t size; bool live; };
static GBlock* gblocks; static int ngblocks; static const int MAXG = 1 << 16;
static long liveBlocksAtStart = 0;
static void* galloc(size_t n)
{
  if(!guardOn) { void* p = malloc(n ? n : 1); if(!p) abort(); return p; }
  size_t pg = 4096, need = (n + 15) & ~(size_t)15; if(!need) need = 16;
  size_t pages = (need + pg - 1) / pg;
  char* base = (char*)mmap(0, (pages + 1) * pg, PROT_READ | PROT_WRITE, MAP_PRIVATE | MAP_ANONYMOUS, -1, 0);
  if(base == MAP_FAILED) rt_abort_execution(VF_HARNESS, "harness:mmap", "guard allocator out of address space");
  mprotect(base + pages * pg, pg, PROT_NONE);
  char* user = base + pages * pg - need;
  memset(base, 0xCD, pages * pg);
  if(ngblocks >= MAXG) rt_abort_execution(VF_HARNESS, "harness:alloc-table", "guard allocator table full");
  GBlock& b = gblocks[ngblocks++]; b.base = base; b.maplen = (pages + 1) * pg; b.user = user; b.size = n; b.live = true;
  return user;
}
static void gfree(void* p)
{
  if(!p) return;
  if(!guardOn) { free(p); return; }
  for(int i = ngblocks - 1; i >= 0; --i)
    if(gblocks[i].user == p)
    {
      if(!gblocks[i].live) { vf_failf("memory:double-free", "a heap block of %zu bytes is freed twice [thread %d]", gblocks[i].size, self ? self->id : -1); return; }
      gblocks[i].live = false;
      mprotect(gblocks[i].base, gblocks[i].maplen, PROT_NONE);
      return;
    }
  // allocated before the guard allocator was switched on (driver memory): leave it alone
}
extern "C" long vf_live_heap_blocks(void) { long n = 0; for(int i = 0; i < ngblocks; ++i) if(gblocks[i].live) ++n; return n - liveBlocksAtStart; }
extern "C" void vf_heap_baseline(void) { liveBlocksAtStart = 0; liveBlocksAtStart = vf_live_heap_blocks(); }
void* operator new(size_t n) { return galloc(n); }
void* operator new[](size_t n) { return galloc(n); }
void operator delete(void* p) noexcept { gfree(p); }
void operator delete[](void* p) noexcept { gfree(p); }
void operator delete(void* p, size_t) noexcept { gfree(p); }
void operator delete[](void* p, size_t) noexcept { gfree(p); }

static void on_fault(int sig, siginfo_t* si, void*)
{
  if(vf_shared)
  {
    const char* what = "memory fault";
    char* a = (char*)si->si_addr;
    for(int i = 0; i < ngblocks; ++i)
      if(a >= gblocks[i].base && a < gblocks[i].base + gblocks[i].maplen)
      { what = gblocks[i].live ? "heap buffer overflow (access behind a live block)" : "use after free (access to a freed heap block)"; break; }
    vf_shared->status = VF_VIOLATION;
    snprintf(vf_shared->key, sizeof(vf_shared->key), "memory:%s", sig == SIGSEGV ? "fault" : "signal");
    snprintf(vf_shared->msg, sizeof(vf_shared->msg), "%s at %p, signal %d [thread %d]", what, si->si_addr, sig, self ? self->id : -1);
    vf_shared->steps = rt.steps;
  }
  _exit(1);
}

// ------------------------------------------------------------------------------------------------ execution entry (called in the forked child)
extern "C" void vf_execute(int scenario, int variant)
{
  static GBlock table[MAXG];
  gblocks = table; ngblocks = 0; guardOn = true;
  struct sigaction sa; memset(&sa, 0, sizeof(sa)); sa.sa_sigaction = on_fault; sa.sa_flags = SA_SIGINFO;
  sigaction(SIGSEGV, &sa, 0); sigaction(SIGBUS, &sa, 0); sigaction(SIGILL, &sa, 0); sigaction(SIGFPE, &sa, 0); sigaction(SIGABRT, &sa, 0);
  memset(&rt, 0, sizeof(rt));
  memset(T, 0, sizeof(T));
  rt.clock = vf_config.clockStart;
  VThread* t0 = &T[0]; t0->id = 0; t0->st = T_RUNNABLE; t0->deadline = -1; t0->joinTarget = -1;
  rt.nthreads = 1; rt.current = 0; self = t0;
  rt.active = true;
  vf_scenario_run(scenario, variant);
  // thread 0 is done: let the others run to completion (the last one to stop ends the execution)
  thread_finished();
  park_forever();
}
