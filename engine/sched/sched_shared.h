/* memory shared between the explorer (parent) and one execution (forked child) */
#ifndef VF_SCHED_SHARED_H
#define VF_SCHED_SHARED_H
enum { VF_OK = 0, VF_VIOLATION = 1, VF_HARNESS = 2, VF_FOREIGN = 3 };
enum { VF_MAXCHOICES = 4096, VF_MAXCOUNTERS = 48 };
struct VfShared
{
  int status;
  int finished;
  int sawNonDefault;
  int ntaken;
  short taken[VF_MAXCHOICES];
  short arity[VF_MAXCHOICES];
  char key[128];
  char msg[768];
  char outcome[512];
  long steps;
  int preemptions, deviations;
  char cname[VF_MAXCOUNTERS][40];
  long cval[VF_MAXCOUNTERS];
};
struct VfConfig
{
  int nprefix; short prefix[VF_MAXCHOICES];
  int shard, nshards;
  int preemptionBound, envBound;
  long horizon;
  int livelockRounds;
  int spurious;          /* offer spurious condition wake-ups as environment alternatives */
  int plainPoints;       /* fine tier: plain (non-volatile) accesses are scheduling points too */
  int processors;        /* value reported by sysconf(_SC_NPROCESSORS_ONLN) */
  long long clockStart;  /* virtual clock at the start of the execution, ns */
  int trace;
  int delayBounded;      /* 1: a non-default choice at a blocking point costs one unit of the preemption budget as well (delay bounding) */
};
extern struct VfShared* vf_shared;
extern struct VfConfig vf_config;
#ifdef __cplusplus
extern "C" {
#endif
void vf_execute(int scenario, int variant);
long vf_live_heap_blocks(void);
void vf_heap_baseline(void);
#ifdef __cplusplus
}
#endif
#endif
