// Explorer B driver: preemption- and deviation-bounded depth-first search over the schedules of one scenario.
// Every execution runs in a forked child (sched_rt.cpp); the choice sequence and the verdict come back through
// shared memory, the next sequence is the lexicographic successor.  Compiled without instrumentation.
#include "engine/common.hpp"
#include "engine/sched/sched.h"
#include "engine/sched/sched_shared.h"
#include <sys/wait.h>
#include <sys/mman.h>
#include <set>
#include <time.h>
#include <errno.h>

static int g_scenario = 0, g_variant = 0;
static int g_execTimeoutMs = 20000;

struct ExecResult { int status; std::vector<int> taken, arity; std::string key, msg, outcome; long steps; bool finished; bool timedOut; int termSig; };

static ExecResult execute(const std::vector<int>& prefix, bool trace)
{
  memset(vf_shared, 0, sizeof(*vf_shared));
  vf_config.nprefix = (int)prefix.size();
  for(size_t i = 0; i < prefix.size(); ++i) vf_config.prefix[i] = (short)prefix[i];
  vf_config.trace = trace ? 1 : 0;
  fflush(stdout); fflush(stderr); fflush(vf::outf());
  pid_t p = fork();
  if(p < 0) { perror("fork"); _exit(3); }
  if(p == 0) { alarm((unsigned)(g_execTimeoutMs / 1000 + 1)); vf_execute(g_scenario, g_variant); _exit(0); }   // SIGALRM ends a hanging execution
  ExecResult r; r.timedOut = false; r.termSig = 0;
  int st = 0;
  while(waitpid(p, &st, 0) < 0 && errno == EINTR) {}
  if(WIFSIGNALED(st)) { r.termSig = WTERMSIG(st); if(r.termSig == SIGALRM) r.timedOut = true; }
  r.status = vf_shared->status; r.finished = vf_shared->finished != 0; r.steps = vf_shared->steps;
  r.key = vf_shared->key; r.msg = vf_shared->msg; r.outcome = vf_shared->outcome;
  for(int i = 0; i < vf_shared->ntaken; ++i) { r.taken.push_back(vf_shared->taken[i]); r.arity.push_back(vf_shared->arity[i]); }
  for(int i = 0; i < VF_MAXCOUNTERS && vf_shared->cname[i][0]; ++i) vf::hit(vf_shared->cname[i], vf_shared->cval[i]);
  if(r.status == VF_OK && !r.finished)
  {
    r.status = VF_VIOLATION;
    if(r.timedOut) { r.key = "hang:real-time"; r.msg = "execution did not end within the real-time limit"; }
    else { r.key = "crash"; r.msg = vf::fmt("execution died (signal %d) without reporting", r.termSig); }
  }
  return r;
}

static std::string pathstr(const std::vector<int>& t) { std::string s; for(size_t i = 0; i < t.size(); ++i) s += vf::fmt(i ? ",%d" : "%d", t[i]); return s; }
static std::vector<int> parsePath(const char* s) { std::vector<int> t; const char* p = s; while(*p) { if(*p == ',') { ++p; continue; } t.push_back((int)strtol(p, (char**)&p, 10)); if(*p == '/') strtol(p + 1, (char**)&p, 10); } return t; }

int main(int argc, char** argv)
{
  vf::std_init(argc, argv);
  if(vf::flag(argc, argv, "--list")) { for(int i = 0; i < vf_scenario_count(); ++i) printf("%d %s %d\n", i, vf_scenario_name(i), vf_scenario_variants(i)); return 0; }
  const char* sname = vf::arg(argc, argv, "--scenario", "0");
  g_scenario = -1;
  for(int i = 0; i < vf_scenario_count(); ++i) if(strcmp(vf_scenario_name(i), sname) == 0) g_scenario = i;
  if(g_scenario < 0) g_scenario = atoi(sname);
  if(g_scenario < 0 || g_scenario >= vf_scenario_count()) { fprintf(stderr, "unknown scenario %s\n", sname); return 3; }
  g_variant = (int)vf::argll(argc, argv, "--variant", 0);
  memset(&vf_config, 0, sizeof(vf_config));
  vf_config.shard = (int)vf::argll(argc, argv, "--shard", 0);
  vf_config.nshards = (int)vf::argll(argc, argv, "--nshards", 1);
  vf_config.preemptionBound = (int)vf::argll(argc, argv, "--pb", 2);
  vf_config.envBound = (int)vf::argll(argc, argv, "--eb", 1);
  vf_config.horizon = vf::argll(argc, argv, "--horizon", 4000);
  vf_config.livelockRounds = (int)vf::argll(argc, argv, "--livelock-rounds", 60);
  vf_config.spurious = (int)vf::argll(argc, argv, "--spurious", 1);
  vf_config.plainPoints = (int)vf::argll(argc, argv, "--plain", 0);
  vf_config.processors = (int)vf::argll(argc, argv, "--processors", 1);
  vf_config.delayBounded = (int)vf::argll(argc, argv, "--delay-bounded", 0);
  vf_config.clockStart = vf::argll(argc, argv, "--clock-start-ns", 1700000000LL * 1000000000LL);
  g_execTimeoutMs = (int)vf::argll(argc, argv, "--exec-timeout-ms", 20000);
  long long deadline = vf::argll(argc, argv, "--deadline", 0);
  long long maxExec = vf::argll(argc, argv, "--max-exec", 0);
  vf_shared = (VfShared*)mmap(0, sizeof(VfShared), PROT_READ | PROT_WRITE, MAP_SHARED | MAP_ANONYMOUS, -1, 0);
  if(vf_shared == MAP_FAILED) { perror("mmap"); return 3; }
  std::string label = vf::fmt("scenario=%s variant=%d pb=%d eb=%d%s", vf_scenario_name(g_scenario), g_variant, vf_config.preemptionBound, vf_config.envBound, vf_config.plainPoints ? " fine" : "");
  if(vf_config.delayBounded) label += " delay-bounded";

  const char* one = vf::arg(argc, argv, "--replay-case");
  if(one)
  {
    vf_config.nshards = 1;
    std::vector<int> t = parsePath(one);
    ExecResult a = execute(t, true), b = execute(t, false);
    printf("replay: status=%d key=%s msg=%s outcome=%s steps=%ld\n", a.status, a.key.c_str(), a.msg.c_str(), a.outcome.c_str(), a.steps);
    if(a.status != b.status || a.key != b.key || a.outcome != b.outcome || a.taken != b.taken) { printf("NON-DETERMINISTIC replay\n"); return 3; }
    if(a.status == VF_VIOLATION) { printf("REPRODUCED\n"); return 1; }
    return 0;
  }

  std::vector<int> path;
  const char* resume = vf::arg(argc, argv, "--resume");
  std::set<std::string> outcomes;
  std::map<std::string, int> violKeys;
  long long execs = 0, maxSteps = 0, totalSteps = 0, maxChoices = 0;
  for(;;)
  {
    if(deadline && (execs & 0x3f) == 0 && time(0) > deadline) { vf::hit("deadline_hit"); break; }
    vf::crumb("sched", pathstr(path), label + " choices=" + pathstr(path));
    ExecResult r = execute(path, false);
    if(r.status == VF_HARNESS) { fprintf(stderr, "harness error in %s choices=%s: %s %s\n", label.c_str(), pathstr(r.taken).c_str(), r.key.c_str(), r.msg.c_str()); return 3; }
    if(r.status != VF_FOREIGN)
    {
      ++execs; totalSteps += r.steps; if(r.steps > maxSteps) maxSteps = r.steps; if((long long)r.taken.size() > maxChoices) maxChoices = (long long)r.taken.size();
      if(r.status == VF_VIOLATION)
      {
        // replay before report: the same choice sequence must fail the same way
        ExecResult again = execute(r.taken, false);
        if(again.status != r.status || again.key != r.key || again.taken != r.taken)
        {
          fprintf(stderr, "non-deterministic harness: %s choices=%s gave '%s' and then '%s'\n", label.c_str(), pathstr(r.taken).c_str(), r.key.c_str(), again.key.c_str());
          return 3;
        }
        vf::hit("violating_executions");
        if(++violKeys[r.key] <= 2) vf::violation(r.key, label + " choices=" + pathstr(r.taken), r.msg + (r.outcome.empty() ? "" : " [outcome " + r.outcome + "]"));
        if(violKeys.size() >= 6 || vf::counters()["violating_executions"] >= 40) { vf::hit("capped_violations"); break; }
      }
      else
      {
        if(outcomes.insert(r.outcome).second && outcomes.size() <= 3) vf::sample(label + " choices=" + pathstr(r.taken) + " outcome: " + r.outcome, 3);
      }
    }
    else vf::hit("foreign_prefixes_skipped");
    if(maxExec && execs >= maxExec) { vf::hit("execution_cap_hit"); break; }
    // successor
    path = r.taken;
    bool more = false;
    for(size_t i = path.size(); i-- > 0;) if(path[i] + 1 < r.arity[i]) { path.resize(i + 1); ++path[i]; more = true; break; }
    if(!more) break;
  }
  (void)resume;
  vf::hit("executions", execs);
  vf::hit("scheduling_points", totalSteps);
  vf::hit(("max:steps_per_execution"), maxSteps);
  vf::hit(("max:choice_points"), maxChoices);
  vf::hit("distinct_outcomes_sum", (long long)outcomes.size());
  vf::hit("scenario_runs");
  vf::emit_counters();
  return 0;
}
