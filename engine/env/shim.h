/* Forced include for Server.cpp, Socket.cpp and Time.cpp in the environment explorer (explorer C): the answers the
   operating system gives the event loop (send results, readiness, time) are decided by the harness. */
#ifndef VF_ENV_SHIM_H
#define VF_ENV_SHIM_H
#include <sys/types.h>
#include <sys/socket.h>
#include <sys/epoll.h>
#include <time.h>
#include <unistd.h>
#ifdef __cplusplus
extern "C" {
#endif
ssize_t vf_send(int fd, const void* buf, size_t n, int flags);
ssize_t vf_recv(int fd, void* buf, size_t n, int flags);
int vf_epoll_wait(int epfd, struct epoll_event* events, int maxevents, int timeout);
int vf_clock_gettime(clockid_t clk, struct timespec* ts);
#ifdef __cplusplus
}
#endif
#define send vf_send
#define recv vf_recv
#define epoll_wait vf_epoll_wait
#define clock_gettime vf_clock_gettime
#endif
