/* As shim.h, and the harness also sees every change of the epoll interest set (needed to tell which descriptor a
   readiness record belongs to when several clients are registered). */
#ifndef VF_ENV_SHIM_CTL_H
#define VF_ENV_SHIM_CTL_H
#include "shim.h"
#ifdef __cplusplus
extern "C" {
#endif
int vf_epoll_ctl(int epfd, int op, int fd, struct epoll_event* ev);
#ifdef __cplusplus
}
#endif
#define epoll_ctl vf_epoll_ctl
#endif
