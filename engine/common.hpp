// Shared plumbing of all harnesses: JSON-lines result channel, breadcrumb file,
// watchdog, allocation ledger (replacement operator new/delete).
// Everything a harness reports goes through here so that the python driver
// (/verif/check) can aggregate counters, turn crashes into violations and write
// the evidence file from measured numbers only.
#pragma once
#include <cstdio>
#include <cstdlib>
#include <cstring>
#include <cstdarg>
#include <string>
#include <vector>
#include <map>
#include <new>
#include <unistd.h>
#include <signal.h>
#include <fcntl.h>
#include <sys/mman.h>
#include <sys/time.h>
#include <sys/stat.h>

namespace vf {

// ---------------------------------------------------------------- output
inline FILE*& outf() { static FILE* f = stdout; return f; }

inline std::string jesc(const std::string& s)
{
  std::string r;
  char b[8];
  for(size_t i = 0; i < s.size(); ++i)
  {
    unsigned char c = (unsigned char)s[i];
    if(c == '"') r += "\\\"";
    else if(c == '\\') r += "\\\\";
    else if(c == '\n') r += "\\n";
    else if(c < 0x20 || c >= 0x7f) { snprintf(b, sizeof(b), "\\u%04x", c); r += b; }
    else r += (char)c;
  }
  return r;
}

// printable rendering of arbitrary bytes (used in case descriptions)
inline std::string show(const std::string& s)
{
  std::string r;
  char b[8];
  for(size_t i = 0; i < s.size(); ++i)
  {
    unsigned char c = (unsigned char)s[i];
    if(c == '\\') r += "\\\\";
    else if(c < 0x20 || c >= 0x7f) { snprintf(b, sizeof(b), "\\x%02x", c); r += b; }
    else r += (char)c;
  }
  return r;
}

inline std::string hex(const std::string& s)
{
  std::string r; char b[4];
  for(size_t i = 0; i < s.size(); ++i) { snprintf(b, sizeof(b), "%02x", (unsigned char)s[i]); r += b; }
  return r;
}

inline std::string fmt(const char* f, ...)
{
  char buf[4096];
  va_list ap; va_start(ap, f);
  vsnprintf(buf, sizeof(buf), f, ap);
  va_end(ap);
  return buf;
}

// counters: summed by the driver over all worker processes
inline std::map<std::string, long long>& counters() { static std::map<std::string, long long> c; return c; }
inline void hit(const char* name, long long n = 1) { counters()[name] += n; }

inline void emit_counters()
{
  for(std::map<std::string, long long>::iterator i = counters().begin(); i != counters().end(); ++i)
    fprintf(outf(), "{\"t\":\"stat\",\"k\":\"%s\",\"v\":%lld}\n", jesc(i->first).c_str(), i->second);
  counters().clear();
  fflush(outf());
}

inline int& nsamples() { static int n = 0; return n; }
inline void sample(const std::string& s, int maxSamples = 6)
{
  if(nsamples() >= maxSamples) return;
  ++nsamples();
  fprintf(outf(), "{\"t\":\"sample\",\"v\":\"%s\"}\n", jesc(s).c_str());
}

inline int& nviol() { static int n = 0; return n; }
// key: stable identification of *what* fails (used to match known findings)
// cs : the concrete case (history / input / schedule) in replayable form
inline void violation(const std::string& key, const std::string& cs, const std::string& msg)
{
  ++nviol();
  fprintf(outf(), "{\"t\":\"viol\",\"key\":\"%s\",\"case\":\"%s\",\"msg\":\"%s\"}\n",
    jesc(key).c_str(), jesc(cs).c_str(), jesc(msg).c_str());
  fflush(outf());
}

inline void note(const std::string& s)
{
  fprintf(outf(), "{\"t\":\"note\",\"v\":\"%s\"}\n", jesc(s).c_str());
  fflush(outf());
}

// ---------------------------------------------------------------- breadcrumb
// The current case is written to a small mmap'ed file *before* it is executed.
// If the process dies (sanitizer report, fault, watchdog) the driver reads the
// crumb and turns it into a VIOLATION carrying that case.
struct Crumb
{
  char* mem; size_t cap;
  Crumb() : mem(0), cap(0) {}
};
inline Crumb& crumbobj() { static Crumb c; return c; }

inline void crumb_open(const char* path, size_t cap = 1 << 16)
{
  int fd = open(path, O_RDWR | O_CREAT | O_TRUNC, 0644);
  if(fd < 0) { perror("crumb open"); _exit(2); }
  if(ftruncate(fd, cap) != 0) { perror("crumb truncate"); _exit(2); }
  void* p = mmap(0, cap, PROT_READ | PROT_WRITE, MAP_SHARED, fd, 0);
  if(p == MAP_FAILED) { perror("crumb mmap"); _exit(2); }
  close(fd);
  crumbobj().mem = (char*)p; crumbobj().cap = cap;
  memset(p, 0, cap);
}

// layout: line 1 = key hint, line 2 = resume token, rest = case text
inline void crumb(const std::string& key, const std::string& resume, const std::string& cs)
{
  Crumb& c = crumbobj();
  if(!c.mem) return;
  std::string s = key + "\n" + resume + "\n" + cs;
  if(s.size() >= c.cap) s.resize(c.cap - 1);
  memcpy(c.mem, s.c_str(), s.size() + 1);
}
inline void crumb_status(const char* st) // appended marker, e.g. TIMEOUT
{
  Crumb& c = crumbobj();
  if(!c.mem) return;
  size_t n = strlen(c.mem);
  size_t m = strlen(st);
  if(n + m + 2 < c.cap) { c.mem[n] = '\n'; memcpy(c.mem + n + 1, st, m + 1); }
}

// ---------------------------------------------------------------- watchdog
inline void on_alarm(int)
{
  crumb_status("@@TIMEOUT");
  _exit(97);
}
inline void watchdog_install()
{
  struct sigaction sa; memset(&sa, 0, sizeof(sa));
  sa.sa_handler = on_alarm;
  sigaction(SIGALRM, &sa, 0);
}
inline void watchdog_arm(int ms)
{
  struct itimerval it; memset(&it, 0, sizeof(it));
  it.it_value.tv_sec = ms / 1000; it.it_value.tv_usec = (ms % 1000) * 1000;
  setitimer(ITIMER_REAL, &it, 0);
}
inline void watchdog_disarm() { watchdog_arm(0); }

// ---------------------------------------------------------------- ledger
struct Ledger
{
  long long live_blocks, live_bytes, total_allocs, cap_bytes;
  bool enabled;
};
inline Ledger& ledger() { static Ledger l = {0, 0, 0, (long long)1 << 30, false}; return l; }
// Only allocations made while a Track object is alive (i.e. while library code
// under test runs) are counted; a block remembers whether it was counted, so a
// harness-side std::string freed inside a tracked region does not disturb the
// balance and vice versa.
struct Track
{
  bool prev;
  Track() : prev(ledger().enabled) { ledger().enabled = true; }
  ~Track() { ledger().enabled = prev; }
};
struct Untrack
{
  bool prev;
  Untrack() : prev(ledger().enabled) { ledger().enabled = false; }
  ~Untrack() { ledger().enabled = prev; }
};

// ---------------------------------------------------------------- args
inline const char* arg(int argc, char** argv, const char* name, const char* def = 0)
{
  for(int i = 1; i + 1 < argc; ++i)
    if(strcmp(argv[i], name) == 0) return argv[i + 1];
  return def;
}
inline bool flag(int argc, char** argv, const char* name)
{
  for(int i = 1; i < argc; ++i)
    if(strcmp(argv[i], name) == 0) return true;
  return false;
}
inline long long argll(int argc, char** argv, const char* name, long long def)
{
  const char* a = arg(argc, argv, name);
  return a ? atoll(a) : def;
}

inline void std_init(int argc, char** argv)
{
  const char* o = arg(argc, argv, "--out");
  if(o)
  { // O_APPEND: forked explorer workers append whole lines to the same file
    int fd = open(o, O_WRONLY | O_CREAT | O_TRUNC | O_APPEND, 0644);
    FILE* f = fd >= 0 ? fdopen(fd, "a") : 0;
    if(!f) { perror("out"); _exit(2); }
    setvbuf(f, 0, _IOLBF, 1 << 15);
    outf() = f;
  }
  const char* c = arg(argc, argv, "--crumb");
  if(c) crumb_open(c);
  watchdog_install();
}

} // namespace vf

#ifdef VF_LEDGER
// Replacement allocation functions: every block carries a 16-byte header with
// its size so that the ledger can keep live byte counts; memory itself comes
// from malloc, so AddressSanitizer still sees overflows and use-after-free.
static inline void* vf_alloc(size_t n)
{
  vf::Ledger& l = vf::ledger();
  if(l.live_bytes + (long long)n > l.cap_bytes)
  {
    vf::crumb_status("@@MEMCAP");
    _exit(96);
  }
  char* p = (char*)malloc(n + 16);
  if(!p) { vf::crumb_status("@@MEMCAP"); _exit(96); }
  ((size_t*)p)[0] = n;
  ((size_t*)p)[1] = l.enabled ? 1 : 0;
  if(l.enabled) { ++l.live_blocks; l.live_bytes += n; ++l.total_allocs; }
  return p + 16;
}
static inline void vf_free(void* q)
{
  if(!q) return;
  char* p = (char*)q - 16;
  vf::Ledger& l = vf::ledger();
  if(((size_t*)p)[1]) { --l.live_blocks; l.live_bytes -= ((size_t*)p)[0]; }
  free(p);
}
void* operator new(size_t n) { return vf_alloc(n); }
void* operator new[](size_t n) { return vf_alloc(n); }
void operator delete(void* p) noexcept { vf_free(p); }
void operator delete[](void* p) noexcept { vf_free(p); }
void operator delete(void* p, size_t) noexcept { vf_free(p); }
void operator delete[](void* p, size_t) noexcept { vf_free(p); }
#endif
