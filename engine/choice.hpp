// Choice-sequence depth-first explorer (explorers B and C share it): a run asks choose(n) at every decision point;
// the explorer replays a prefix and takes alternative 0 afterwards, then advances to the lexicographically next
// sequence.  Budgets (deviations, depth, preemptions) are enforced by the harness offering arity 1.
// Sharding: a run belongs to the shard selected by its first two choices; foreign runs are abandoned at the
// second choice.  The breadcrumb carries the choices and arities made so far, so that a crashed run can be
// reported and the search resumed behind it.
#pragma once
#include "engine/common.hpp"
#include <time.h>

namespace vf {

struct SkipRun {};

struct Chooser
{
  std::vector<int> prefix;      // choices to replay
  std::vector<int> taken, arity;
  int shard, nshards;
  std::string crumbKey;
  Chooser() : shard(0), nshards(1) {}

  void begin(const std::vector<int>& p) { prefix = p; taken.clear(); arity.clear(); }
  std::string token() const
  {
    std::string s; char b[32];
    for(size_t i = 0; i < taken.size(); ++i) { snprintf(b, sizeof(b), i ? ",%d/%d" : "%d/%d", taken[i], arity[i]); s += b; }
    return s;
  }
  std::string path() const
  {
    std::string s; char b[16];
    for(size_t i = 0; i < taken.size(); ++i) { snprintf(b, sizeof(b), i ? ",%d" : "%d", taken[i]); s += b; }
    return s;
  }
  int choose(int n)
  {
    if(n <= 0) { fprintf(stderr, "choose(%d)\n", n); _exit(3); }
    size_t pos = taken.size();
    int c = pos < prefix.size() ? prefix[pos] : 0;
    if(c >= n)
    {
      fprintf(stderr, "replay divergence at choice %zu: recorded alternative %d, only %d offered now (non-deterministic harness)\n", pos, c, n);
      _exit(3);
    }
    taken.push_back(c); arity.push_back(n);
    crumb(crumbKey, token(), "choices=" + path());
    if(pos == 1 && nshards > 1 && (unsigned)(taken[0] * 131 + taken[1]) % (unsigned)nshards != (unsigned)shard) throw SkipRun();
    return c;
  }
  // successor of the sequence (taken, arity); false when the space is exhausted
  static bool next(std::vector<int>& taken, const std::vector<int>& arity)
  {
    for(size_t i = taken.size(); i-- > 0;)
      if(taken[i] + 1 < arity[i]) { taken.resize(i + 1); ++taken[i]; return true; }
    return false;
  }
};

inline bool parseToken(const char* s, std::vector<int>& taken, std::vector<int>& arity)
{
  taken.clear(); arity.clear();
  const char* p = s;
  while(*p)
  {
    if(*p == ',') { ++p; continue; }
    int c = (int)strtol(p, (char**)&p, 10);
    int a = 1 << 30;
    if(*p == '/') a = (int)strtol(p + 1, (char**)&p, 10);
    taken.push_back(c); arity.push_back(a);
  }
  return true;
}

// Run(ch) executes one program, reporting violations itself; returns false for abandoned (foreign) runs.
template<class Run> void dfs(int argc, char** argv, Run& run, const char* crumbKey)
{
  Chooser ch;
  ch.crumbKey = crumbKey;
  ch.shard = (int)argll(argc, argv, "--shard", 0);
  ch.nshards = (int)argll(argc, argv, "--nshards", 1);
  long long deadline = argll(argc, argv, "--deadline", 0);
  long long maxRuns = argll(argc, argv, "--max-runs", 0);
  int watchdogMs = (int)argll(argc, argv, "--watchdog-ms", 10000);
  std::vector<int> path;
  const char* resume = arg(argc, argv, "--resume");
  const char* one = arg(argc, argv, "--replay-case");
  if(one)
  { // single execution of a recorded choice sequence, twice (observations must agree)
    std::vector<int> t, a; parseToken(one, t, a);
    ch.nshards = 1;
    for(int k = 0; k < 2; ++k) { watchdog_arm(watchdogMs * 4); ch.begin(t); try { run(ch, true); } catch(SkipRun&) {} }
    watchdog_disarm();
    emit_counters();
    return;
  }
  if(resume && *resume)
  {
    std::vector<int> t, a; parseToken(resume, t, a);
    if(!Chooser::next(t, a)) { emit_counters(); return; }
    path = t;
  }
  long long runs = 0;
  for(;;)
  {
    ch.begin(path);
    if((runs & 0x3f) == 0)
    {
      watchdog_arm(watchdogMs);
      if(deadline && time(0) > deadline) { hit("deadline_hit"); break; }
    }
    bool mine = true;
    try { run(ch, false); } catch(SkipRun&) { mine = false; }
    if(mine) { ++runs; hit("executions"); }
    else hit("foreign_prefixes_skipped");
    if(maxRuns && runs >= maxRuns) { hit("run_cap_hit"); break; }
    path = ch.taken;
    if(!Chooser::next(path, ch.arity)) break;
  }
  watchdog_disarm();
  emit_counters();
}

} // namespace vf
