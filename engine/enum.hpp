// Explorer D: exhaustive enumeration of inputs.  A harness enumerates its whole
// case space in a fixed order; Shard decides which cases this process executes
// (index modulo the number of shards), supports resuming after a crashing case
// and a global deadline.
#pragma once
#include "engine/common.hpp"
#include <time.h>

namespace vf {

struct Shard
{
  long long idx;        // running case index (identical in all shards)
  int shard, nshards;
  long long resumeAfter; // execute only cases with idx > resumeAfter
  long long deadline;
  bool stop;
  long long executed;
  Shard() : idx(-1), shard(0), nshards(1), resumeAfter(-1), deadline(0), stop(false), executed(0) {}
  void init(int argc, char** argv)
  {
    shard = (int)argll(argc, argv, "--shard", 0);
    nshards = (int)argll(argc, argv, "--nshards", 1);
    resumeAfter = argll(argc, argv, "--resume", -1);
    deadline = argll(argc, argv, "--deadline", 0);
  }
  // call once per case, in enumeration order
  bool take()
  {
    ++idx;
    if(stop) return false;
    if(idx % nshards != shard) return false;
    if(idx <= resumeAfter) return false;
    if(deadline && (executed & 0x3ff) == 0 && time(0) > deadline)
    {
      stop = true;
      hit("deadline_hit");
      return false;
    }
    ++executed;
    return true;
  }
  std::string token() const { char b[32]; snprintf(b, sizeof(b), "%lld", idx); return b; }
};

// exactly sized heap copy: the byte after the end is in an ASan red zone
struct Exact
{
  char* p; size_t n;
  Exact(const void* d, size_t len) : n(len) { p = (char*)malloc(len ? len : 1); if(len) memcpy(p, d, len); }
  Exact(const std::string& s, bool withNul) : n(s.size() + (withNul ? 1 : 0))
  {
    p = (char*)malloc(n ? n : 1);
    memcpy(p, s.data(), s.size());
    if(withNul) p[s.size()] = 0;
  }
  ~Exact() { free(p); }
private:
  Exact(const Exact&); Exact& operator=(const Exact&);
};

// odometer over an alphabet of `base` symbols, lengths 0..maxLen, shortest first
struct Odometer
{
  int base, maxLen, len;
  std::vector<int> d;
  bool started;
  Odometer(int b, int m, int minLen = 0) : base(b), maxLen(m), len(minLen), d(minLen, 0), started(false) {}
  bool next()
  {
    if(!started) { started = true; return len <= maxLen; }
    int i = len - 1;
    while(i >= 0) { if(++d[i] < base) return true; d[i] = 0; --i; }
    ++len; d.assign(len, 0);
    return len <= maxLen;
  }
};

} // namespace vf
