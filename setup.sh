#!/bin/sh
# Framework setup: everything is compiled per check from /repo's working tree, so
# setup only verifies the toolchain and creates output directories.
set -e
cd "$(dirname "$0")"
mkdir -p build evidence replays
g++ --version >/dev/null
python3 -c 'import json,subprocess,concurrent.futures'
echo 'int main(){return 0;}' > build/.probe.cpp
g++ -fsanitize=address build/.probe.cpp -o build/.probe && ./build/.probe
rm -f build/.probe build/.probe.cpp
echo setup ok
