// C19: paths, files, directories (explorer D).  Modes: paths, relpath, filehist, mkdirs, rmtrees.
#define VF_LEDGER
#include <nstd/File.hpp>
#include <nstd/Directory.hpp>
#include "engine/enum.hpp"
#include <string>
#include <map>
#include <set>
#include <algorithm>
#include <sys/stat.h>
#include <sys/types.h>
#include <dirent.h>
#include <errno.h>

static std::string sstr(const String& s) { return std::string((const char*)s, s.length()); }
static String S(const std::string& s) { return String(s.data(), s.size()); }

// ---------------------------------------------------------------- lexical reference
struct Canon { bool abs; std::vector<std::string> comp; bool operator==(const Canon& o) const { return abs == o.abs && comp == o.comp; } };
static Canon canon(const std::string& p)
{
  Canon c; c.abs = !p.empty() && (p[0] == '/' || p[0] == '\\');
  std::string cur;
  for(size_t i = 0; i <= p.size(); ++i)
  {
    if(i == p.size() || p[i] == '/' || p[i] == '\\')
    {
      if(cur == "..") { if(!c.comp.empty() && c.comp.back() != "..") c.comp.pop_back(); else if(!c.abs) c.comp.push_back(".."); }
      else if(!cur.empty() && cur != ".") c.comp.push_back(cur);
      cur.clear();
    }
    else cur += p[i];
  }
  return c;
}
static std::string cstr(const Canon& c) { std::string s = c.abs ? "/" : ""; for(size_t i = 0; i < c.comp.size(); ++i) s += (i ? "/" : "") + c.comp[i]; return s.empty() ? "." : s; }

static void pathCase(const std::string& p, const std::string& cs)
{
  String sp = S(p);
  std::string simp = sstr(File::simplifyPath(sp));
  vf::hit("path_inputs");
  if(!(canon(simp) == canon(p))) vf::violation("C19:path:simplify-equivalent", cs, "simplifyPath gives '" + simp + "' which denotes '" + cstr(canon(simp)) + "', the input denotes '" + cstr(canon(p)) + "'");
  std::string simp2 = sstr(File::simplifyPath(S(simp)));
  if(simp2 != simp) vf::violation("C19:path:simplify-idempotent", cs, "simplifyPath('" + simp + "') = '" + simp2 + "'");
  std::string dir = sstr(File::getDirectoryName(sp)), base = sstr(File::getBaseName(sp));
  if(!(canon(dir + "/" + base) == canon(p))) vf::violation("C19:path:dir-base-recompose", cs, "directory '" + dir + "' + base '" + base + "' denotes '" + cstr(canon(dir + "/" + base)) + "'");
  if(base.find('/') != std::string::npos || base.find('\\') != std::string::npos) vf::violation("C19:path:basename", cs, "base name '" + base + "' contains a separator");
  // stem / extension
  std::string stem = sstr(File::getStem(sp)), ext = sstr(File::getExtension(sp));
  size_t dots = std::count(base.begin(), base.end(), '.');
  if(base.compare(0, stem.size(), stem) != 0) vf::violation("C19:path:stem-prefix", cs, "stem '" + stem + "' is not a prefix of the base name '" + base + "'");
  if(!ext.empty() && (base.size() < ext.size() + 1 || base.substr(base.size() - ext.size() - 1) != "." + ext)) vf::violation("C19:path:extension-suffix", cs, "extension '" + ext + "' is not a dot-separated suffix of '" + base + "'");
  if(dots <= 1 && (base.empty() || base[base.size() - 1] != '.'))
  {
    std::string re = ext.empty() && dots == 0 ? stem : stem + "." + ext;
    if(re != base) vf::violation("C19:path:stem-ext-recompose", cs, "stem '" + stem + "' + extension '" + ext + "' give '" + re + "', base name is '" + base + "'");
  }
  static const char* exts[] = {"b", "c", ".b", "a.b"};
  for(int k = 0; k < 4; ++k)
  {
    std::string e = exts[k];
    std::string st = sstr(File::getStem(sp, S(e)));
    std::string suffix = e[0] == '.' ? e : "." + e;
    std::string want = base.size() >= suffix.size() && base.substr(base.size() - suffix.size()) == suffix ? base.substr(0, base.size() - suffix.size()) : base;
    if(st != want) vf::violation("C19:path:stem-with-extension", cs, "getStem(p, '" + e + "') = '" + st + "', expected '" + want + "'");
  }
}

// ---------------------------------------------------------------- file system helpers (independent of the library)
static void rmrf(const std::string& p)
{
  struct stat st;
  if(lstat(p.c_str(), &st) != 0) return;
  if(S_ISDIR(st.st_mode))
  {
    DIR* d = opendir(p.c_str());
    if(d) { while(struct dirent* e = readdir(d)) { std::string n = e->d_name; if(n != "." && n != "..") rmrf(p + "/" + n); } closedir(d); }
    rmdir(p.c_str());
  }
  else unlink(p.c_str());
}
// snapshot: path -> kind:content
static void snap(const std::string& root, const std::string& rel, std::map<std::string, std::string>& out)
{
  std::string p = rel.empty() ? root : root + "/" + rel;
  struct stat st;
  if(lstat(p.c_str(), &st) != 0) return;
  if(S_ISLNK(st.st_mode)) { char buf[512]; ssize_t n = readlink(p.c_str(), buf, sizeof(buf)); out[rel] = "L:" + std::string(buf, n > 0 ? n : 0); }
  else if(S_ISDIR(st.st_mode))
  {
    out[rel] = "D";
    std::vector<std::string> names;
    DIR* d = opendir(p.c_str());
    if(d) { while(struct dirent* e = readdir(d)) { std::string n = e->d_name; if(n != "." && n != "..") names.push_back(n); } closedir(d); }
    std::sort(names.begin(), names.end());
    for(size_t i = 0; i < names.size(); ++i) snap(root, rel.empty() ? names[i] : rel + "/" + names[i], out);
  }
  else
  {
    std::string c; FILE* f = fopen(p.c_str(), "rb");
    if(f) { char buf[4096]; size_t n; while((n = fread(buf, 1, sizeof(buf), f)) > 0) c.append(buf, n); fclose(f); }
    out[rel] = "F:" + c;
  }
}
static std::string snapstr(const std::map<std::string, std::string>& m) { std::string s; for(std::map<std::string, std::string>::const_iterator i = m.begin(); i != m.end(); ++i) s += "[" + i->first + "=" + vf::show(i->second) + "]"; return s; }
static void putFile(const std::string& p, const std::string& c) { FILE* f = fopen(p.c_str(), "wb"); if(f) { fwrite(c.data(), 1, c.size(), f); fclose(f); } }

// ---------------------------------------------------------------- file histories
struct FObj { std::string bytes; };
struct FModel
{
  std::map<std::string, int> names;      // name -> object id
  std::vector<FObj> objs;
  bool open; int hobj; size_t pos; bool canRead, canWrite;
  FModel() : open(false), hobj(-1), pos(0), canRead(false), canWrite(false) {}
};
enum { O_W, O_R, O_WA, O_RW, O_WOPEN, O_RB, WR2, WR1, SEEK0, SEEK1, READALL, SIZE, CLOSE, CP_AB_F, CP_AB_O, CP_BA_O, CP_CB_F, MV_AB_F, MV_AB_O, MV_CB_F, MV_CB_O, RM_A, RM_B, CP_DB_F, NOPS };
static const char* OPN[] = {"open(a,write)", "open(a,read)", "open(a,write|append)", "open(a,read|write)", "open(a,write|open)", "open(b,read)", "write('xy')", "write('Z')", "seek(0)", "seek(1)", "readAll", "size", "close",
  "copy(a,b,failIfExists)", "copy(a,b,overwrite)", "copy(b,a,overwrite)", "copy(c,b,failIfExists)", "rename(a,b,failIfExists)", "rename(a,b,overwrite)", "rename(c,b,failIfExists)", "rename(c,b,overwrite)", "unlink(a)", "unlink(b)", "copy(<directory>,b,failIfExists)"};

static bool fileHistory(const std::vector<int>& ops, const std::string& dir, const std::string& cs)
{
  rmrf(dir); mkdir(dir.c_str(), 0755);
  mkdir((dir + ".srcdir").c_str(), 0755);
  FModel m;
  File* h = new File();
  bool ok = true;
  std::string trace;
  for(size_t k = 0; k < ops.size() && ok; ++k)
  {
    int op = ops[k];
    trace += std::string(k ? "; " : "") + OPN[op];
    // preconditions of the API (a closed File must not be read/written/seeked; an open one must not be opened)
    bool needOpen = op >= WR2 && op <= CLOSE;
    if(needOpen && !m.open) { delete h; return false; }
    std::map<std::string, std::string> before; snap(dir, "", before);
    bool ret = false, expect = false; std::string got, want; long long gotN = 0, wantN = 0; bool cmpStr = false, cmpN = false;
    std::string A = dir + "/a", B = dir + "/b", C = dir + "/c";
    if(op <= O_RB)
    {
      const std::string& nm = op == O_RB ? "b" : "a";
      uint flags = op == O_W ? File::writeFlag : op == O_R || op == O_RB ? File::readFlag : op == O_WA ? (File::writeFlag | File::appendFlag) : op == O_RW ? (File::readFlag | File::writeFlag) : (File::writeFlag | File::openFlag);
      ret = h->open(S(dir + "/" + nm), flags);
      bool exists = m.names.count(nm) != 0;
      if(m.open) expect = false;
      else if((op == O_R || op == O_RB || op == O_WOPEN) && !exists) expect = false;
      else
      {
        expect = true;
        if(!exists) { FObj o; m.objs.push_back(o); m.names[nm] = (int)m.objs.size() - 1; }
        m.hobj = m.names[nm]; m.open = true;
        if(op == O_W) m.objs[m.hobj].bytes.clear();
        m.pos = op == O_WA ? m.objs[m.hobj].bytes.size() : 0;
        m.canRead = op == O_R || op == O_RB || op == O_RW; m.canWrite = op != O_R && op != O_RB;
      }
    }
    else if(op == WR2 || op == WR1)
    {
      std::string d = op == WR2 ? "xy" : "Z";
      ret = h->write(S(d));
      expect = m.canWrite;
      if(expect) { std::string& b = m.objs[m.hobj].bytes; if(b.size() < m.pos + d.size()) b.resize(m.pos + d.size(), '\0'); b.replace(m.pos, d.size(), d); m.pos += d.size(); }
    }
    else if(op == SEEK0 || op == SEEK1) { gotN = h->seek(op == SEEK0 ? 0 : 1); wantN = op == SEEK0 ? 0 : 1; m.pos = (size_t)wantN; cmpN = true; ret = expect = true; }
    else if(op == READALL)
    {
      String data; ret = h->readAll(data); got = sstr(data);
      expect = m.canRead;
      if(expect) { const std::string& b = m.objs[m.hobj].bytes; want = m.pos < b.size() ? b.substr(m.pos) : ""; m.pos = std::max(m.pos, b.size()); cmpStr = true; }
    }
    else if(op == SIZE) { gotN = h->size(); wantN = (long long)m.objs[m.hobj].bytes.size(); cmpN = true; ret = expect = true; }
    else if(op == CLOSE) { h->close(); m.open = false; ret = expect = true; }
    else if(op >= CP_AB_F && op <= CP_CB_F)
    {
      std::string src = op == CP_BA_O ? "b" : op == CP_CB_F ? "c" : "a", dst = op == CP_BA_O ? "a" : "b";
      bool fail = op == CP_AB_F || op == CP_CB_F;
      ret = File::copy(S(dir + "/" + src), S(dir + "/" + dst), fail);
      expect = m.names.count(src) && !(fail && m.names.count(dst));
      if(expect)
      {
        std::string content = m.objs[m.names[src]].bytes;
        if(!m.names.count(dst)) { FObj o; m.objs.push_back(o); m.names[dst] = (int)m.objs.size() - 1; }
        m.objs[m.names[dst]].bytes = content;   // O_TRUNC + copy into the same inode (an open handle on it sees the new content)
      }
    }
    else if(op >= MV_AB_F && op <= MV_CB_O)
    {
      std::string src = op == MV_CB_F || op == MV_CB_O ? "c" : "a", dst = "b";
      bool fail = op == MV_AB_F || op == MV_CB_F;
      ret = File::rename(S(dir + "/" + src), S(dir + "/" + dst), fail);
      expect = m.names.count(src) && !(fail && m.names.count(dst));
      if(expect) { m.names[dst] = m.names[src]; m.names.erase(src); }
    }
    else if(op == CP_DB_F)
    { // the source is a directory (kept outside the scratch listing): must fail without creating b
      ret = File::copy(S(dir + ".srcdir"), S(dir + "/b"), true);
      expect = false;
    }
    else if(op == RM_A || op == RM_B)
    {
      std::string nm = op == RM_A ? "a" : "b";
      ret = File::unlink(S(dir + "/" + nm));
      expect = m.names.count(nm) != 0;
      if(expect) m.names.erase(nm);
    }
    vf::hit("file_operations");
    std::string at = cs + " [" + trace + "]";
    if(ret != expect) { vf::violation(std::string("C19:file:result:") + OPN[op], at, vf::fmt("returned %d, reference %d", (int)ret, (int)expect)); ok = false; break; }
    if(cmpStr && got != want) { vf::violation("C19:file:readAll", at, "read '" + vf::show(got) + "', reference '" + vf::show(want) + "'"); ok = false; break; }
    if(cmpN && gotN != wantN) { vf::violation(std::string("C19:file:value:") + OPN[op], at, vf::fmt("returned %lld, reference %lld", gotN, wantN)); ok = false; break; }
    std::map<std::string, std::string> after; snap(dir, "", after);
    if(!expect && op != CLOSE)
    { // a failed operation leaves the directory as it was
      if(after != before) { vf::violation(std::string("C19:file:failed-op-side-effect:") + OPN[op], at, "directory before " + snapstr(before) + " after " + snapstr(after)); ok = false; break; }
    }
    // names and contents equal the model
    std::map<std::string, std::string> wantSnap; wantSnap[""] = "D";
    for(std::map<std::string, int>::iterator i = m.names.begin(); i != m.names.end(); ++i) wantSnap[i->first] = "F:" + m.objs[i->second].bytes;
    if(after != wantSnap) { vf::violation(std::string("C19:file:contents:") + OPN[op], at, "directory " + snapstr(after) + ", reference " + snapstr(wantSnap)); ok = false; break; }
  }
  delete h;
  return true;
}

int main(int argc, char** argv)
{
  vf::std_init(argc, argv);
  vf::Shard sh; sh.init(argc, argv);
  std::string mode = vf::arg(argc, argv, "--mode", "paths");
  std::string scratch = vf::arg(argc, argv, "--scratch", "/tmp");
  scratch += vf::fmt("/vf_c19_%d_%d", (int)getpid(), sh.shard);
  int len = (int)vf::argll(argc, argv, "--len", 3);

  if(mode == "paths")
  {
    static const char* COMP[] = {"a", "b", ".", "..", "a.b", ".a", "a.", "a.b.c"};
    static const char* LEAD[] = {"", "/", "\\"};
    long long n = 0;
    vf::Odometer od(8, len);
    while(od.next())
      for(int lead = 0; lead < 3; ++lead) for(int trail = 0; trail < 2; ++trail) for(int seps = 0; seps < (od.len > 1 ? 1 << (od.len - 1) : 1); ++seps)
      {
        if(!sh.take()) continue;
        std::string p = LEAD[lead];
        for(int i = 0; i < od.len; ++i) { if(i) p += (seps >> (i - 1)) & 1 ? "\\" : "/"; p += COMP[od.d[i]]; }
        if(trail) p += "/";
        std::string cs = "path '" + p + "'";
        vf::crumb("path", sh.token(), cs);
        if((n++ & 0x3ff) == 0) vf::watchdog_arm(20000);
        pathCase(p, cs);
        if(od.len >= 1) vf::hit("distinct_nontrivial");
        if(od.len == 3 && od.d[0] == 3 && od.d[1] == 0 && lead == 1 && seps == 0 && !trail) vf::sample(cs + " -> '" + sstr(File::simplifyPath(S(p))) + "'", 4);
      }
  }
  else if(mode == "relpath")
  {
    static const char* COMP[] = {"a", "b", ".", "..", "ab"};     // "ab": a name that merely starts with another name
    std::vector<std::string> paths;
    { vf::Odometer od(5, len); while(od.next()) { std::string p; for(int i = 0; i < od.len; ++i) p += std::string(i ? "/" : "") + COMP[od.d[i]]; paths.push_back(p); } }
    long long n = 0;
    for(int abs = 0; abs < 2; ++abs) for(size_t i = 0; i < paths.size(); ++i) for(size_t j = 0; j < paths.size(); ++j)
    {
      if(!sh.take()) continue;
      std::string from = (abs ? "/" : "") + paths[i], to = (abs ? "/" : "") + paths[j];
      std::string cs = "getRelativePath('" + from + "', '" + to + "')";
      vf::crumb("relpath", sh.token(), cs);
      if((n++ & 0x3ff) == 0) vf::watchdog_arm(20000);
      Canon cf = canon(from), ct = canon(to);
      size_t k = 0; while(k < cf.comp.size() && k < ct.comp.size() && cf.comp[k] == ct.comp[k]) ++k;
      bool answerable = true;
      for(size_t q = k; q < cf.comp.size(); ++q) if(cf.comp[q] == "..") answerable = false;
      vf::hit("relpath_pairs");
      if(!answerable) { vf::hit("relpath_pairs_without_lexical_answer"); continue; }
      vf::hit("distinct_nontrivial");
      std::string r = sstr(File::getRelativePath(S(from), S(to)));
      std::string joined = (from.empty() ? std::string(".") : from) + "/" + r;
      if(!(canon(joined) == ct)) vf::violation("C19:path:relative", cs, "result '" + r + "': from + '/' + result denotes '" + cstr(canon(joined)) + "', to denotes '" + cstr(ct) + "'");
      else if(i == 5 && j == 9) vf::sample(cs + " = '" + r + "'", 4);
    }
  }
  else if(mode == "filehist")
  {
    vf::Odometer od(NOPS, len, 1);
    long long n = 0;
    while(od.next())
    {
      if(!sh.take()) continue;
      std::vector<int> ops(od.d.begin(), od.d.begin() + od.len);
      std::string cs = "file history ";
      for(int i = 0; i < od.len; ++i) cs += vf::fmt(i ? ",%d" : "%d", od.d[i]);
      vf::crumb("filehist", sh.token(), cs);
      if((n++ & 0xff) == 0) vf::watchdog_arm(30000);
      if(fileHistory(ops, scratch, cs)) { vf::hit("file_histories"); if(od.len >= 2) vf::hit("distinct_nontrivial"); if(od.len == 3 && od.d[0] == O_W && od.d[1] == WR2 && od.d[2] == CP_AB_F) vf::sample(cs + " = open(a,write); write('xy'); copy(a,b,failIfExists)", 2); }
      else vf::hit("file_histories_skipped_precondition");
    }
    rmrf(scratch); rmrf(scratch + ".srcdir");
  }
  else if(mode == "mkdirs")
  {
    static const char* COMP[] = {"a", "b", ".", "..", "f"};
    vf::Odometer od(5, len, 1);
    while(od.next())
      for(int abs = 0; abs < 2; ++abs) for(int trail = 0; trail < 2; ++trail)
      {
        if(!sh.take()) continue;
        // the working directory lies four levels deep so that ".." components never leave the scratch directory
        rmrf(scratch); mkdir(scratch.c_str(), 0755);
        std::string wd = scratch;
        for(int l = 0; l < 4; ++l) { wd += l == 3 ? "/w" : "/l"; mkdir(wd.c_str(), 0755); }
        putFile(wd + "/f", "file");
        if(chdir(wd.c_str()) != 0) _exit(3);
        std::string rel; for(int i = 0; i < od.len; ++i) rel += std::string(i ? "/" : "") + COMP[od.d[i]];
        std::string p = (abs ? wd + "/" : "") + rel + (trail ? "/" : "");
        std::string cs = "Directory::create('" + (abs ? "<scratch>/w/" + rel : rel) + (trail ? "/" : "") + "')";
        vf::crumb("mkdirs", sh.token(), cs);
        vf::watchdog_arm(20000);
        bool r = Directory::create(S(p));
        struct stat st; bool exists = stat(p.c_str(), &st) == 0 && S_ISDIR(st.st_mode);
        vf::hit("mkdir_cases"); vf::hit("distinct_nontrivial");
        if(r != exists) vf::violation("C19:dir:create-result", cs, vf::fmt("returned %d but the directory %s afterwards", (int)r, exists ? "exists" : "does not exist"));
        std::map<std::string, std::string> s; snap(wd, "", s);
        if(s["f"] != "F:file") vf::violation("C19:dir:create-damage", cs, "the regular file 'f' was changed");
        // a path that stays inside w and contains no file component can be created
        bool hasF = false; for(int i = 0; i < od.len; ++i) if(od.d[i] == 4) hasF = true;
        Canon c = canon(rel); bool escapes = !c.comp.empty() && c.comp[0] == "..";
        if(!hasF && !escapes && !exists) vf::violation("C19:dir:create-parents", cs, "directory (and its parents) was not created although nothing is in the way");
        if(od.len == 3 && od.d[0] == 0 && od.d[1] == 1) vf::sample(cs + vf::fmt(" -> %d", (int)r), 3);
        if(chdir("/") != 0) _exit(3);
      }
    rmrf(scratch);
  }
  else if(mode == "rmtrees")
  {
    // trees: sequences of (kind, depth) with kinds f,d,ld,lf,lx and depth <= previous depth + 1 (pre-order encoding)
    int maxNodes = len;
    std::vector<std::vector<std::pair<int, int> > > trees;
    std::vector<std::pair<int, int> > cur;
    struct Rec { static void go(int left, int maxDepth, bool prevDir, int prevDepth, std::vector<std::pair<int, int> >& cur, std::vector<std::vector<std::pair<int, int> > >& out, const std::vector<int>& dirAt)
    {
      out.push_back(cur);
      if(!left) return;
      // next node may be placed at any depth d (1..prevDepth+1 if prev is a dir, else 1..prevDepth) whose parent chain consists of dirs
      for(int d = 1; d <= prevDepth + (prevDir ? 1 : 0); ++d)
        for(int kind = 0; kind < 5; ++kind)
        {
          cur.push_back(std::make_pair(kind, d));
          go(left - 1, maxDepth, kind == 1, d, cur, out, dirAt);
          cur.pop_back();
        }
    } };
    std::vector<int> dummy;
    Rec::go(maxNodes, 0, true, 0, cur, trees, dummy);
    for(size_t t = 0; t < trees.size(); ++t)
    {
      if(!sh.take()) continue;
      const std::vector<std::pair<int, int> >& tr = trees[t];
      rmrf(scratch); mkdir(scratch.c_str(), 0755);
      std::string out = scratch + "/outside", root = scratch + "/root";
      mkdir(out.c_str(), 0755); mkdir((out + "/od").c_str(), 0755); putFile(out + "/od/keep", "keep"); putFile(out + "/of", "outside file");
      mkdir(root.c_str(), 0755);
      std::vector<std::string> stack; stack.push_back(root);
      std::string cs = "recursive unlink of tree ";
      bool valid = true;
      for(size_t i = 0; i < tr.size() && valid; ++i)
      {
        int kind = tr[i].first, d = tr[i].second;
        if(d > (int)stack.size()) { valid = false; break; }
        stack.resize(d);
        std::string p = stack.back() + vf::fmt("/n%d", (int)i);
        static const char* KN[] = {"file", "dir", "link->outside dir", "link->outside file", "dangling link"};
        cs += vf::fmt("%s%s@%d", i ? "," : "", KN[kind], d);
        if(kind == 0) putFile(p, "x");
        else if(kind == 1) { mkdir(p.c_str(), 0755); stack.push_back(p); }
        else if(kind == 2) { if(symlink((out + "/od").c_str(), p.c_str()) != 0) _exit(3); }
        else if(kind == 3) { if(symlink((out + "/of").c_str(), p.c_str()) != 0) _exit(3); }
        else { if(symlink((scratch + "/nowhere").c_str(), p.c_str()) != 0) _exit(3); }
      }
      if(!valid) continue;
      vf::crumb("rmtrees", sh.token(), cs);
      vf::watchdog_arm(30000);
      std::map<std::string, std::string> before; snap(out, "", before);
      bool r = Directory::unlink(S(root), true);
      struct stat st; bool gone = lstat(root.c_str(), &st) != 0;
      std::map<std::string, std::string> after; snap(out, "", after);
      vf::hit("rmtree_cases"); if(!tr.empty()) vf::hit("distinct_nontrivial");
      if(!r || !gone) vf::violation("C19:dir:unlink-recursive", cs, vf::fmt("returned %d, tree %s", (int)r, gone ? "gone" : "still there"));
      if(after != before) vf::violation("C19:dir:unlink-escaped", cs, "outside tree changed: before " + snapstr(before) + " after " + snapstr(after));
      if(tr.size() == 3 && tr[0].first == 1 && tr[1].first == 2) vf::sample(cs, 3);
    }
    rmrf(scratch);
  }
  vf::watchdog_disarm();
  vf::emit_counters();
  return 0;
}
