// History harness for List (-DVF_LIST), Array (-DVF_ARRAY), PoolList (-DVF_PL); two variables A, B.
// Serves C03 (reference sequence), C04 (lifetimes, deep copies, self arguments), C05 (address stability).
// With --sortenum the List binary enumerates inputs of List::sort instead (explorer D).
#define VF_LEDGER
#include <nstd/List.hpp>
#include <nstd/Array.hpp>
#include <nstd/PoolList.hpp>
#include "engine/histbfs.hpp"
#include "engine/enum.hpp"
#include "engine/tracked.hpp"
#include "harness/pool_canon.hpp"
#include <algorithm>

using vf::Tracked;
#define PTAG (std::string(ptag))
#define LIB(...) do { vf::Track t_; __VA_ARGS__; } while(0)

struct PElem
{
  Tracked t;
  PElem() : t(0) {}
  PElem(int a) : t(a) {}
  PElem(int a, int b) : t(a * 10 + b) {}
private:
  PElem(const PElem&);
  PElem& operator=(const PElem&);
};

#if defined(VF_LIST)
typedef List<Tracked> C;
#define CNAME "List"
#define STABLE 1
static inline int valOf(C::Iterator& it) { return (*it).get(); }
#elif defined(VF_ARRAY)
typedef Array<Tracked> C;
#define CNAME "Array"
#define STABLE 0
static inline int valOf(C::Iterator& it) { return (*it).get(); }
#else
typedef PoolList<PElem> C;
#define CNAME "PoolList"
#define STABLE 1
static inline int valOf(C::Iterator& it) { return (*it).t.get(); }
#endif
static inline const void* addrOf(C::Iterator& it) { return &*it; }

struct Cfg
{
  int V;        // value universe 0..V-1 (List); Array/PoolList use fresh tags
  int maxLen;   // cap on the length of each variable
  bool selfOps;
  int initCap;  // Array: capacity passed to the explicit constructor (0 = default constructor)
};

struct Ent { int val; const void* addr; };
typedef std::vector<Ent> Ref;

static void faults()
{
  if(!vf::reg().fault.empty())
  {
    std::string f = vf::reg().fault;
    vf::fail("C04:" CNAME ":" + f.substr(0, f.find(':')), f);
  }
}

struct H
{
  Cfg cfg;
  C* v[2];
  Ref ref[2];
  int nextTag;
  struct Op { int kind, x, y; };
  std::vector<Op> ops;
  bool opsValid;
  const char* ptag;  // property whose oracle is being evaluated: self-referential operations belong to C04
  enum { APPEND, PREPEND, INSERT, INSLIST, APPENDLIST, PREPENDLIST, REMI, REMV, REMF, REMB, CLEAR, SWAP, COPY, ASSIGN_BA, ASSIGN_AB, SORT,
         RESERVE, RESIZE, APPENDPTR, REMIDX, PAPPEND0, PAPPEND1, PAPPEND2, REMREF,
         SELFASSIGN, SELFSWAP, APPENDSELF, PREPENDSELF, INSSELF, INSOWN, APPENDOWN, REMOWNVAL, RESIZEOWN };

  C* make()
  {
    C* c = 0;
#ifdef VF_ARRAY
    if(cfg.initCap) { LIB(c = new C((usize)cfg.initCap)); return c; }
#endif
    LIB(c = new C());
    return c;
  }

  H(const Cfg& c) : cfg(c), nextTag(100), opsValid(false), ptag("C03")
  {
    vf::reg().reset();
    vf::ledger().live_blocks = 0; vf::ledger().live_bytes = 0;
    v[0] = make(); v[1] = make();
    faults();
  }

  void add(int kind, int x = 0, int y = 0) { Op o = {kind, x, y}; ops.push_back(o); }
  void buildOps()
  {
    ops.clear();
    int n = (int)ref[0].size(), m = (int)ref[1].size();
    bool room = n < cfg.maxLen;
#if defined(VF_LIST)
    if(room)
    {
      for(int x = 0; x < cfg.V; ++x) add(APPEND, x);
      for(int x = 0; x < cfg.V; ++x) add(PREPEND, x);
      for(int p = 0; p <= n; ++p) for(int x = 0; x < cfg.V; ++x) add(INSERT, p, x);
    }
    if(n + m <= cfg.maxLen)
    {
      for(int p = 0; p <= n; ++p) add(INSLIST, p);
      add(APPENDLIST); add(PREPENDLIST);
    }
    for(int x = 0; x <= cfg.V; ++x) add(REMV, x);
    add(SORT);
#elif defined(VF_ARRAY)
    if(room) add(APPEND, 0);
    if(n + m <= cfg.maxLen) add(APPENDLIST);
    static const int cnt[] = {0, 1, 3};
    for(int j = 0; j < 3; ++j) if(n + cnt[j] <= cfg.maxLen) add(APPENDPTR, cnt[j]);
    { int rs[] = {0, 1, n, n + 1, (int)v[0]->capacity(), (int)v[0]->capacity() + 1, cfg.maxLen}; std::vector<int> u(rs, rs + 7); std::sort(u.begin(), u.end()); u.erase(std::unique(u.begin(), u.end()), u.end());
      for(size_t j = 0; j < u.size(); ++j) if(u[j] >= 0 && u[j] <= cfg.maxLen + 1) add(RESERVE, u[j]); }
    { int rs[] = {0, 1, n - 1, n, n + 1, n + 3, (int)v[0]->capacity() + 1}; std::vector<int> u(rs, rs + 7); std::sort(u.begin(), u.end()); u.erase(std::unique(u.begin(), u.end()), u.end());
      for(size_t j = 0; j < u.size(); ++j) if(u[j] >= 0 && u[j] <= cfg.maxLen) add(RESIZE, u[j]); }
    for(int p = 0; p <= n; ++p) add(REMIDX, p);
#else
    if(room) { add(PAPPEND0); add(PAPPEND1, 3); add(PAPPEND2, 4, 2); }
    for(int p = 0; p < n; ++p) add(REMREF, p);
#endif
    for(int p = 0; p < n; ++p) add(REMI, p);
    if(n) { add(REMF); add(REMB); }
    add(CLEAR);
    add(SWAP, 0); add(SWAP, 1);   // both receivers
#ifndef VF_PL
    add(COPY); add(ASSIGN_BA); add(ASSIGN_AB);
#endif
    if(cfg.selfOps)
    {
      add(SELFSWAP);
#ifndef VF_PL
      add(SELFASSIGN);
#endif
#if defined(VF_LIST)
      if(2 * n <= cfg.maxLen) { add(APPENDSELF); add(PREPENDSELF); for(int p = 0; p <= n; ++p) add(INSSELF, p); }
      if(room) for(int p = 0; p <= n; ++p) for(int q = 0; q < n; ++q) add(INSOWN, p, q);
      for(int q = 0; q < n; ++q) add(REMOWNVAL, q);
#elif defined(VF_ARRAY)
      if(2 * n <= cfg.maxLen) add(APPENDSELF);
      if(room) for(int q = 0; q < n; ++q) add(APPENDOWN, q);
      for(int q = 0; q < n; ++q) { if(n + 1 <= cfg.maxLen) add(RESIZEOWN, n + 1, q); if(n + 4 <= cfg.maxLen) add(RESIZEOWN, n + 4, q); }
#endif
    }
    opsValid = true;
  }
  int nops() { if(!opsValid) buildOps(); return (int)ops.size(); }
  static const char* kindName(int k)
  {
    static const char* n[] = {"append", "prepend", "insert", "insertList", "appendList", "prependList", "removeIt", "removeValue", "removeFront", "removeBack", "clear", "swap",
      "copyConstruct", "assignBfromA", "assignAfromB", "sort", "reserve", "resize", "appendPtr", "removeIndex", "append0", "append1", "append2", "removeRef",
      "selfAssign", "selfSwap", "appendSelf", "prependSelf", "insertSelf", "insertOwnElement", "appendOwnElement", "removeOwnValueRef", "resizeWithOwnElement"};
    return n[k];
  }
  std::string opname(int i)
  {
    if(!opsValid) buildOps();
    const Op& o = ops[i];
    return vf::fmt("A.%s(%d,%d) [len %d/%d]", kindName(o.kind), o.x, o.y, (int)ref[0].size(), (int)ref[1].size());
  }

  C::Iterator at(C& c, int p) { C::Iterator it = c.begin(); for(int i = 0; i < p; ++i) ++it; return it; }
  int indexOf(C& c, const C::Iterator& it)
  {
    int i = 0;
    for(C::Iterator j = c.begin(); j != c.end() && i < 300; ++j, ++i) if(j == it) return i;
    return it == c.end() ? i : -1;
  }
  void learn(int w)
  {
    size_t i = 0;
    for(C::Iterator it = v[w]->begin(); it != v[w]->end() && i < ref[w].size(); ++it, ++i) ref[w][i].addr = addrOf(it);
  }
  void learnNew(int w)
  {
    size_t i = 0;
    for(C::Iterator it = v[w]->begin(); it != v[w]->end() && i < ref[w].size(); ++it, ++i) if(!ref[w][i].addr || !STABLE) ref[w][i].addr = addrOf(it);
  }
  static Ent ent(int val) { Ent e = {val, 0}; return e; }

  void apply(int i)
  {
    if(!opsValid) buildOps();
    Op o = ops[i];
    opsValid = false;
    ptag = (o.kind >= SELFASSIGN) ? "C04" : "C03";
    vf::hit((std::string("opcalls:") + kindName(o.kind)).c_str());
    C& a = *v[0];
    C& b = *v[1];
    Ref& ra = ref[0];
    Ref& rb = ref[1];
    int n = (int)ra.size();
    switch(o.kind)
    {
#if defined(VF_LIST)
    case APPEND: case PREPEND: case INSERT:
    {
      int val = o.kind == INSERT ? o.y : o.x;
      int p = o.kind == APPEND ? n : o.kind == PREPEND ? 0 : o.x;
      Tracked t(val);
      const void* ret = 0;
      if(o.kind == APPEND) { Tracked* r = 0; LIB(r = &a.append(t)); ret = r; }
      else if(o.kind == PREPEND) { Tracked* r = 0; LIB(r = &a.prepend(t)); ret = r; }
      else { C::Iterator pos = at(a, p), r; LIB(r = a.insert(pos, t)); faults(); VF_CHECK(indexOf(a, r) == p, PTAG + ":" CNAME ":insert-returned-iterator", "insert at %d returned an iterator to index %d", p, indexOf(a, r)); ret = addrOf(r); }
      faults();
      ra.insert(ra.begin() + p, ent(val));
      learnNew(0);
      VF_CHECK(ret == ra[p].addr, PTAG + ":" CNAME ":returned-reference", "%s returned a reference/iterator that does not designate the inserted element", kindName(o.kind));
      break;
    }
    case INSLIST: case APPENDLIST: case PREPENDLIST: case INSSELF: case APPENDSELF: case PREPENDSELF:
    {
      bool self = o.kind == INSSELF || o.kind == APPENDSELF || o.kind == PREPENDSELF;
      C& src = self ? a : b;
      Ref copy = self ? ra : rb;   // as if copied first
      int p = (o.kind == INSLIST || o.kind == INSSELF) ? o.x : (o.kind == APPENDLIST || o.kind == APPENDSELF) ? n : 0;
      if(o.kind == INSLIST || o.kind == INSSELF)
      {
        C::Iterator pos = at(a, p), r;
        LIB(r = a.insert(pos, src));
        faults();
        int ri = indexOf(a, r);
        VF_CHECK(ri == p, PTAG + ":" CNAME ":insert-returned-iterator", "insert(pos=%d, list of %d) returned an iterator to index %d (expected the first inserted element / the position)", p, (int)copy.size(), ri);
      }
      else if(o.kind == APPENDLIST || o.kind == APPENDSELF) LIB(a.append(src));
      else LIB(a.prepend(src));
      faults();
      for(size_t j = 0; j < copy.size(); ++j) ra.insert(ra.begin() + p + j, ent(copy[j].val));
      learnNew(0);
      break;
    }
    case REMV:
    {
      { Tracked t(o.x); LIB(a.remove(t)); }
      faults();
      for(size_t j = 0; j < ra.size(); ++j) if(ra[j].val == o.x) { ra.erase(ra.begin() + j); break; }
      break;
    }
    case SORT:
    {
      LIB(a.sort());
      faults();
      std::vector<int> vals; for(size_t j = 0; j < ra.size(); ++j) vals.push_back(ra[j].val);
      std::sort(vals.begin(), vals.end());
      for(size_t j = 0; j < ra.size(); ++j) ra[j].val = vals[j];
      learn(0); // sort exchanges payloads between nodes: identity is not promised across sort
      break;
    }
    case INSOWN:
    {
      C::Iterator pos = at(a, o.x), q = at(a, o.y), r;
      const Tracked& own = *q;
      int val = own.get();
      LIB(r = a.insert(pos, own));
      faults();
      ra.insert(ra.begin() + o.x, ent(val));
      learnNew(0);
      break;
    }
    case REMOWNVAL:
    {
      C::Iterator q = at(a, o.x);
      const Tracked& own = *q;
      int val = own.get();
      LIB(a.remove(own));
      faults();
      for(size_t j = 0; j < ra.size(); ++j) if(ra[j].val == val) { ra.erase(ra.begin() + j); break; }
      break;
    }
#elif defined(VF_ARRAY)
    case APPEND:
    {
      int val = nextTag++;
      Tracked t(val);
      Tracked* r = 0;
      LIB(r = &a.append(t));
      faults();
      ra.push_back(ent(val));
      learnNew(0);
      VF_CHECK((const void*)r == ra.back().addr, PTAG + ":" CNAME ":returned-reference", "append returned a reference that is not the last element");
      break;
    }
    case APPENDLIST: case APPENDSELF:
    {
      Ref copy = o.kind == APPENDSELF ? ra : rb;
      if(o.kind == APPENDSELF) LIB(a.append(a)); else LIB(a.append(b));
      faults();
      for(size_t j = 0; j < copy.size(); ++j) ra.push_back(ent(copy[j].val));
      break;
    }
    case APPENDPTR:
    {
      std::vector<Tracked>* src = new std::vector<Tracked>();
      for(int j = 0; j < o.x; ++j) src->push_back(Tracked(nextTag + j));
      LIB(a.append(o.x ? &(*src)[0] : (const Tracked*)0, (usize)o.x));
      faults();
      for(int j = 0; j < o.x; ++j) ra.push_back(ent(nextTag + j));
      nextTag += o.x;
      delete src;
      break;
    }
    case RESERVE:
    {
      usize capBefore = a.capacity();
      LIB(a.reserve((usize)o.x));
      faults();
      VF_CHECK(a.capacity() >= (usize)o.x && a.capacity() >= capBefore, PTAG + ":" CNAME ":capacity", "reserve(%d): capacity %d -> %d", o.x, (int)capBefore, (int)a.capacity());
      break;
    }
    case RESIZE: case RESIZEOWN:
    {
      int fill;
      if(o.kind == RESIZE) { fill = nextTag++; Tracked t(fill); LIB(a.resize((usize)o.x, t)); }
      else { const Tracked& own = a[o.y]; fill = own.get(); LIB(a.resize((usize)o.x, own)); }
      faults();
      if(o.x < n) ra.resize(o.x); else while((int)ra.size() < o.x) ra.push_back(ent(fill));
      break;
    }
    case APPENDOWN:
    {
      const Tracked& own = a[o.x];
      int val = own.get();
      LIB(a.append(own));
      faults();
      ra.push_back(ent(val));
      break;
    }
    case REMIDX:
      LIB(a.remove((usize)o.x));
      faults();
      if(o.x < n) ra.erase(ra.begin() + o.x);
      break;
#else
    case PAPPEND0: case PAPPEND1: case PAPPEND2:
    {
      PElem* r = 0;
      int val = 0;
      if(o.kind == PAPPEND0) LIB(r = &a.append());
      else if(o.kind == PAPPEND1) { LIB(r = &a.append(o.x)); val = o.x; }
      else { LIB(r = &a.append(o.x, o.y)); val = o.x * 10 + o.y; }
      faults();
      ra.push_back(ent(val));
      learnNew(0);
      VF_CHECK((const void*)r == ra.back().addr, PTAG + ":" CNAME ":returned-reference", "append returned a reference that is not the last element");
      break;
    }
    case REMREF:
    {
      C::Iterator it = at(a, o.x);
      PElem& e = *it;
      LIB(a.remove(e));
      faults();
      ra.erase(ra.begin() + o.x);
      break;
    }
#endif
    case REMI: case REMF: case REMB:
    {
      int p = o.kind == REMI ? o.x : o.kind == REMF ? 0 : n - 1;
      C::Iterator it = at(a, p), r;
#if STABLE
      C::Iterator succ = it; ++succ;
#endif
      if(o.kind == REMI) LIB(r = a.remove(it));
      else if(o.kind == REMF) LIB(r = a.removeFront());
      else LIB(r = a.removeBack());
      faults();
      ra.erase(ra.begin() + p);
#if STABLE
      VF_CHECK(r == succ, PTAG + ":" CNAME ":remove-returned-iterator", "remove at index %d did not return the successor", p);
#else
      VF_CHECK(indexOf(a, r) == p, PTAG + ":" CNAME ":remove-returned-iterator", "remove at index %d returned an iterator to index %d (expected the successor)", p, indexOf(a, r));
#endif
      break;
    }
    case CLEAR: LIB(a.clear()); faults(); ra.clear(); break;
    case SWAP: if(o.x) LIB(b.swap(a)); else LIB(a.swap(b)); faults(); ra.swap(rb); break;
    case SELFSWAP: LIB(a.swap(a)); faults(); break;
#ifndef VF_PL
    case COPY:
    {
      C* nn = 0;
      LIB(nn = new C(a));
      faults();
      LIB(delete v[1]);
      faults();
      v[1] = nn; ref[1] = ref[0]; learn(1);
      break;
    }
    case ASSIGN_BA: LIB(b = a); faults(); rb = ra; learn(1); break;
    case ASSIGN_AB: LIB(a = b); faults(); ra = rb; learn(0); break;
    case SELFASSIGN: { C& r = a; LIB(a = r); faults(); learn(0); break; }
#endif
    }
#if !STABLE
    learn(0); learn(1);
#endif
    verify(kindName(o.kind));
  }

  void verifyOne(int w, const char* after)
  {
    C& c = *v[w];
    Ref& r = ref[w];
    const char* nm = w ? "B" : "A";
    int n = (int)r.size();
    VF_CHECK((int)c.size() == n, PTAG + ":" CNAME ":size", "after %s: %s.size() = %d, reference %d", after, nm, (int)c.size(), n);
    VF_CHECK(c.isEmpty() == (n == 0), PTAG + ":" CNAME ":isEmpty", "after %s: %s.isEmpty() = %d with %d elements", after, nm, (int)c.isEmpty(), n);
    int i = 0;
    for(C::Iterator it = c.begin(); it != c.end(); ++it, ++i)
    {
      VF_CHECK(i < n, PTAG + ":" CNAME ":iteration", "after %s: %s iterates over more than %d elements", after, nm, n);
      VF_CHECK(valOf(it) == r[i].val, PTAG + ":" CNAME ":contents", "after %s: %s[%d] = %d, reference %d", after, nm, i, valOf(it), r[i].val);
#if STABLE
      VF_CHECK(addrOf(it) == r[i].addr, "C05:" CNAME ":element-moved", "after %s: element %d of %s (value %d) moved from %p to %p", after, i, nm, r[i].val, r[i].addr, addrOf(it));
#endif
    }
    VF_CHECK(i == n, PTAG + ":" CNAME ":iteration", "after %s: %s iterates over %d elements, reference %d", after, nm, i, n);
    if(n)
    {
      i = n;
      C::Iterator it = c.end();
      do
      {
        --it; --i;
        VF_CHECK(i >= 0, PTAG + ":" CNAME ":iteration", "after %s: backward iteration of %s runs past the first element", after, nm);
        VF_CHECK(valOf(it) == r[i].val, PTAG + ":" CNAME ":contents-backward", "after %s: backward %s[%d] = %d, reference %d", after, nm, i, valOf(it), r[i].val);
      } while(it != c.begin());
      VF_CHECK(i == 0, PTAG + ":" CNAME ":iteration", "after %s: backward iteration of %s stops at index %d", after, nm, i);
#ifdef VF_PL
      VF_CHECK(c.front().t.get() == r[0].val && c.back().t.get() == r[n - 1].val, PTAG + ":" CNAME ":front-back", "after %s: front()/back() of %s differ from the reference", after, nm);
      VF_CHECK((const void*)&c.front() == r[0].addr && (const void*)&c.back() == r[n - 1].addr, PTAG + ":" CNAME ":front-back", "after %s: front()/back() of %s do not designate the first/last element", after, nm);
#else
      VF_CHECK(c.front().get() == r[0].val && c.back().get() == r[n - 1].val, PTAG + ":" CNAME ":front-back", "after %s: front()/back() of %s differ from the reference", after, nm);
#endif
    }
    else
      VF_CHECK(c.begin() == c.end(), PTAG + ":" CNAME ":iteration", "after %s: begin() != end() in empty %s", after, nm);
#ifdef VF_ARRAY
    VF_CHECK(c.size() <= c.capacity() || c.size() == 0, PTAG + ":" CNAME ":capacity", "after %s: %s.size() %d > capacity() %d", after, nm, (int)c.size(), (int)c.capacity());
    const Tracked* raw = c;
    for(int j = 0; j < n; ++j) VF_CHECK(raw[j].get() == r[j].val, PTAG + ":" CNAME ":raw-view", "after %s: raw pointer view of %s differs at %d", after, nm, j);
#endif
#ifndef VF_PL
    // find returns the first occurrence
    std::vector<int> probe;
    for(int x = -1; x <= cfg.V; ++x) probe.push_back(x);
    for(int j = 0; j < n; ++j) probe.push_back(r[j].val);
    for(size_t q = 0; q < probe.size(); ++q)
    {
      int x = probe[q];
      Tracked t(x);
      C::Iterator it = c.find(t);
      int want = -1;
      for(int j = 0; j < n; ++j) if(r[j].val == x) { want = j; break; }
      int got = it == c.end() ? -1 : indexOf(c, it);
      VF_CHECK(got == want, PTAG + ":" CNAME ":find", "after %s: %s.find(%d) designates index %d, reference %d", after, nm, x, got, want);
    }
#endif
  }

  void verify(const char* after)
  {
    faults();
    verifyOne(0, after);
    verifyOne(1, after);
#ifdef VF_LIST
    bool eq = ref[0].size() == ref[1].size();
    for(size_t i = 0; eq && i < ref[0].size(); ++i) if(ref[0][i].val != ref[1][i].val) eq = false;
    bool e1 = *v[0] == *v[1], e2 = *v[1] == *v[0], n1 = *v[0] != *v[1];
    VF_CHECK(e1 == eq && e2 == eq && n1 == !eq, PTAG + ":" CNAME ":equality", "after %s: A==B is %d, B==A is %d, A!=B is %d; reference equality %d", after, (int)e1, (int)e2, (int)n1, (int)eq);
#endif
    faults();
  }

  std::string canon()
  {
    std::string s = CNAME;
    for(int w = 0; w < 2; ++w)
    {
      s += w ? "|B:" : "|A:";
#if defined(VF_LIST)
      for(size_t i = 0; i < ref[w].size(); ++i) s += (char)('0' + ref[w][i].val);
#elif defined(VF_ARRAY)
      // element values never influence Array's control flow: size, capacity and "storage allocated" decide every branch
      s += vf::fmt("n%d c%d %s", (int)ref[w].size(), (int)v[w]->capacity(), (const Tracked*)*v[w] ? "alloc" : "null");
#else
      s += vf::fmt("n%d", (int)ref[w].size());
#endif
#ifndef VF_ARRAY
      s += poolCanon(*v[w], *v[1 - w]);
      s += linkCanon(*v[w]);
#endif
    }
    return s;
  }

  void finish()
  {
    LIB(delete v[0]); LIB(delete v[1]);
    v[0] = v[1] = 0;
    faults();
    vf::Registry& r = vf::reg();
    VF_CHECK(r.live.empty(), "C04:" CNAME ":element-leak", "%d element(s) still alive after the containers were destroyed", (int)r.live.size());
    VF_CHECK(vf::ledger().live_blocks == 0, "C04:" CNAME ":memory-leak", "%lld heap block(s) (%lld bytes) still allocated after the containers were destroyed",
      vf::ledger().live_blocks, vf::ledger().live_bytes);
    VF_CHECK(r.ctor == r.dtor, "C04:" CNAME ":ctor-dtor-balance", "%lld constructions vs %lld destructions", r.ctor, r.dtor);
  }
};

#ifdef VF_LIST
// explorer D: every input of sort up to the bounds
static int sortEnum(int argc, char** argv)
{
  vf::Shard sh; sh.init(argc, argv);
  int maxLen = (int)vf::argll(argc, argv, "--sortlen", 7), vals = (int)vf::argll(argc, argv, "--sortvals", 4), perm = (int)vf::argll(argc, argv, "--sortperm", 8);
  for(int phase = 0; phase < 2; ++phase)
  {
    vf::Odometer od(phase == 0 ? vals : perm, phase == 0 ? maxLen : perm, phase == 0 ? 0 : perm);
    while(od.next())
    {
      if(phase == 1)
      { // permutations only
        bool isPerm = true; unsigned seen = 0;
        for(int i = 0; i < od.len; ++i) { if(seen & (1u << od.d[i])) { isPerm = false; break; } seen |= 1u << od.d[i]; }
        if(!isPerm) continue;
      }
      if(!sh.take()) continue;
      std::string cs = "sort [";
      for(int i = 0; i < od.len; ++i) cs += vf::fmt(i ? ",%d" : "%d", od.d[i]);
      cs += "]";
      vf::crumb("sort", sh.token(), cs);
      vf::watchdog_arm(10000);
      vf::reg().reset();
      {
        List<Tracked> l;
        for(int i = 0; i < od.len; ++i) { Tracked t(od.d[i]); l.append(t); }
        l.sort();
        std::vector<int> want(od.d.begin(), od.d.begin() + od.len), got;
        std::sort(want.begin(), want.end());
        for(List<Tracked>::Iterator it = l.begin(); it != l.end() && got.size() < 100; ++it) got.push_back((*it).get());
        vf::hit("sort_inputs");
        if(od.len >= 2) vf::hit("distinct_nontrivial");
        if(got != want || l.size() != (usize)od.len)
          vf::violation("C03:List:sort", cs, "result is not the ascending permutation of the input");
        else if(!vf::reg().fault.empty())
          vf::violation("C04:List:sort-lifetime", cs, vf::reg().fault);
        else if(od.len == 5 && od.d[0] == 3 && od.d[1] == 1) vf::sample(cs, 4);
      }
      if(!vf::reg().live.empty()) vf::violation("C04:List:sort-lifetime", cs, "elements alive after the list was destroyed");
    }
  }
  vf::watchdog_disarm();
  vf::emit_counters();
  return 0;
}
#endif

int main(int argc, char** argv)
{
  vf::std_init(argc, argv);
#ifdef VF_LIST
  if(vf::flag(argc, argv, "--sortenum")) return sortEnum(argc, argv);
#endif
  Cfg c;
  c.V = (int)vf::argll(argc, argv, "--values", 3);
  c.maxLen = (int)vf::argll(argc, argv, "--maxlen", 4);
  c.selfOps = vf::flag(argc, argv, "--selfops");
  c.initCap = (int)vf::argll(argc, argv, "--initcap", 0);
  std::string label = vf::fmt(CNAME " V=%d maxlen=%d%s", c.V, c.maxLen, c.selfOps ? " selfops" : "");
  if(c.initCap) label += vf::fmt(" initcap=%d", c.initCap);
  return vf::bfs_main<H, Cfg>(argc, argv, c, label, 64);
}
