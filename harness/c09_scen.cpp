// C09 (concurrent part): distinct handles to one shared payload used by different threads.
// Values are thread-private, so the final content of every handle is schedule independent.
#include <nstd/String.hpp>
#include <nstd/List.hpp>
#include <nstd/Variant.hpp>
#include <nstd/RefCount.hpp>
#include <nstd/Thread.hpp>
#include <nstd/Document/Xml.hpp>
#include "engine/sched/sched.h"
#include "engine/sched/sched_shared.h"
#include <string.h>

static void expectStr(const String& s, const char* want, const char* who)
{
  if(s.length() != strlen(want) || memcmp((const char*)s, want, strlen(want)) != 0)
    vf_failf("C09:content", "%s holds '%s', expected '%s'", who, (const char*)s, want);
}

// ------------------------------------------------------------------------------------------------ String
static String* hs[4];
static uint strCopyDrop(void* p) { String* h = (String*)p; { String c(*h); String d; d = c; expectStr(d, "abcdef", "copy of the shared string"); } delete h; return 0; }
static uint strAppend(void* p) { String* h = (String*)p; h->append("x", 1); expectStr(*h, "abcdefx", "appended string"); delete h; return 0; }
static uint strDrop(void* p) { delete (String*)p; return 0; }
static uint strCView(void* p) { String* h = (String*)p; const String& c = *h; const char* z = c; if(strlen(z) != 6) vf_failf("C09:content", "C-string view has length %d", (int)strlen(z)); expectStr(*h, "abcdef", "viewed string"); delete h; return 0; }
static uint strWrite(void* p) { String* h = (String*)p; char* w = *h; w[0] = 'X'; expectStr(*h, "Xbcdef", "written string"); delete h; return 0; }
static uint strAssign(void* p) { String* h = (String*)p; String other("zz", 2); *h = other; expectStr(*h, "zz", "reassigned string"); delete h; return 0; }
// the remaining release paths of a String handle: clear(), attach() and assignment from a String that owns no counted payload
static uint strClear(void* p) { String* h = (String*)p; h->clear(); expectStr(*h, "", "cleared string"); delete h; return 0; }
static uint strAttach(void* p) { String* h = (String*)p; h->attach("lit", 3); expectStr(*h, "lit", "attached string"); delete h; return 0; }
static uint strAssignUncounted(void* p) { String* h = (String*)p; String other; other.attach("zz", 2); *h = other; expectStr(*h, "zz", "string assigned from an attached one"); delete h; return 0; }
static uint strJoin(void* p) { String* h = (String*)p; List<String> l; l.append(String("p", 1)); l.append(String("q", 1)); h->join(l, ','); expectStr(*h, "p,q", "joined string"); delete h; return 0; }
static void scenString(int variant)
{
  vf_heap_baseline();
  {
    String* base = new String("abcdef", 6);
    for(int i = 0; i < 3; ++i) hs[i] = new String(*base);
    delete base;
    Thread a, b, c;
    if(variant == 0) { a.start(strCopyDrop, hs[0]); b.start(strAppend, hs[1]); c.start(strDrop, hs[2]); }
    else if(variant == 1) { a.start(strCView, hs[0]); b.start(strWrite, hs[1]); c.start(strCopyDrop, hs[2]); }
    else if(variant == 2) { a.start(strAssign, hs[0]); b.start(strDrop, hs[1]); c.start(strAppend, hs[2]); }
    else if(variant == 3) { a.start(strClear, hs[0]); b.start(strDrop, hs[1]); c.start(strAttach, hs[2]); }
    else if(variant == 4) { a.start(strAssignUncounted, hs[0]); b.start(strClear, hs[1]); c.start(strCopyDrop, hs[2]); }
    else { a.start(strJoin, hs[0]); b.start(strAttach, hs[1]); c.start(strAssignUncounted, hs[2]); }
    a.join(); b.join(); c.join();
  }
  if(vf_live_heap_blocks() != 0) vf_failf("C09:release", "%ld heap block(s) still allocated after the last handle was dropped", vf_live_heap_blocks());
}

// ------------------------------------------------------------------------------------------------ Variant
static Variant* hv[4];
static uint varCopyDrop(void* p) { Variant* h = (Variant*)p; { Variant c(*h); Variant d; d = c; if(d.toList().size() != 2) vf_failf("C09:content", "copy of the shared list has %d elements", (int)d.toList().size()); } delete h; return 0; }
static uint varMutate(void* p)
{
  Variant* h = (Variant*)p;
  h->toList().append(Variant(7));
  if(h->toList().size() != 3) vf_failf("C09:content", "mutated list has %d elements, expected 3", (int)h->toList().size());
  delete h; return 0;
}
static uint varDrop(void* p) { delete (Variant*)p; return 0; }
static uint varRead(void* p) { Variant* h = (Variant*)p; const Variant& c = *h; if(c.toList().size() != 2 || c.toList().front().toInt() != 1) vf_failf("C09:content", "shared list changed under a reader"); delete h; return 0; }
// the same three roles on the other payload kinds: every mutable accessor (toMap, toArray, toString) has its own clone-on-write path
static int g_kind;   // 1 map, 2 array, 3 string
static int kindSize(const Variant& c) { return g_kind == 1 ? (int)c.toMap().size() : g_kind == 2 ? (int)c.toArray().size() : (int)c.toString().length(); }
static uint kindCopyDrop(void* p) { Variant* h = (Variant*)p; { Variant c(*h); Variant d; d = c; const Variant& r = d; if(kindSize(r) != 2) vf_failf("C09:content", "copy of the shared payload has size %d", kindSize(r)); } delete h; return 0; }
static uint kindMutate(void* p)
{
  Variant* h = (Variant*)p;
  if(g_kind == 1) h->toMap().append(String("k3", 2), Variant(7));
  else if(g_kind == 2) h->toArray().append(Variant(7));
  else h->toString().append('z');
  const Variant& r = *h;
  if(kindSize(r) != 3) vf_failf("C09:content", "mutated payload has size %d, expected 3", kindSize(r));
  delete h; return 0;
}
static void scenVariantKind(int kind)
{
  g_kind = kind;
  vf_heap_baseline();
  {
    Variant* base = new Variant();
    if(kind == 1) { base->toMap().append(String("k1", 2), Variant(1)); base->toMap().append(String("k2", 2), Variant(String("s", 1))); }
    else if(kind == 2) { base->toArray().append(Variant(1)); base->toArray().append(Variant(String("s", 1))); }
    else *base = String("ab", 2);
    for(int i = 0; i < 3; ++i) hv[i] = new Variant(*base);
    delete base;
    Thread a, b, c;
    a.start(kindCopyDrop, hv[0]); b.start(kindMutate, hv[1]); c.start(varDrop, hv[2]);
    a.join(); b.join(); c.join();
  }
  if(vf_live_heap_blocks() != 0) vf_failf("C09:release", "%ld heap block(s) still allocated after the last handle was dropped", vf_live_heap_blocks());
}
// the other ways a Variant handle lets go of a shared payload: clear(), typed assignment, assignment of another Variant, swap
static uint varClear(void* p) { Variant* h = (Variant*)p; h->clear(); if(!h->isNull()) vf_failf("C09:content", "cleared Variant is not null"); delete h; return 0; }
static uint varAssignInt(void* p) { Variant* h = (Variant*)p; *h = 7; if(h->toInt() != 7) vf_failf("C09:content", "Variant assigned 7 holds %d", h->toInt()); delete h; return 0; }
static uint varAssignString(void* p) { Variant* h = (Variant*)p; *h = String("s", 1); const Variant& c = *h; expectStr(c.toString(), "s", "Variant assigned a String"); delete h; return 0; }
static uint varAssignVariant(void* p) { Variant* h = (Variant*)p; Variant o(5); *h = o; if(h->toInt() != 5) vf_failf("C09:content", "Variant assigned Variant(5) holds %d", h->toInt()); delete h; return 0; }
static uint varAssignList(void* p) { Variant* h = (Variant*)p; List<Variant> l; l.append(Variant(9)); *h = l; const Variant& c = *h; if(c.toList().size() != 1) vf_failf("C09:content", "Variant assigned a one-element list has %d elements", (int)c.toList().size()); delete h; return 0; }
static uint varSwap(void* p) { Variant* h = (Variant*)p; Variant o(3); h->swap(o); const Variant& c = o; if(h->toInt() != 3 || c.toList().size() != 2) vf_failf("C09:content", "swap exchanged the wrong payloads"); delete h; return 0; }
static void scenVariantRelease(int which)
{
  vf_heap_baseline();
  {
    Variant* base = new Variant();
    base->toList().append(Variant(1)); base->toList().append(Variant(String("s", 1)));
    for(int i = 0; i < 3; ++i) hv[i] = new Variant(*base);
    delete base;
    Thread a, b, c;
    if(which == 0) { a.start(varClear, hv[0]); b.start(varAssignInt, hv[1]); c.start(varAssignString, hv[2]); }
    else { a.start(varAssignVariant, hv[0]); b.start(varSwap, hv[1]); c.start(varAssignList, hv[2]); }
    a.join(); b.join(); c.join();
  }
  if(vf_live_heap_blocks() != 0) vf_failf("C09:release", "%ld heap block(s) still allocated after the last handle was dropped", vf_live_heap_blocks());
}
static void scenVariant(int variant)
{
  if(variant >= 5) { scenVariantRelease(variant - 5); return; }
  if(variant >= 2) { scenVariantKind(variant - 1); return; }
  vf_heap_baseline();
  {
    Variant* base = new Variant();
    base->toList().append(Variant(1)); base->toList().append(Variant(String("s", 1)));
    for(int i = 0; i < 3; ++i) hv[i] = new Variant(*base);
    delete base;
    Thread a, b, c;
    if(variant == 0) { a.start(varCopyDrop, hv[0]); b.start(varMutate, hv[1]); c.start(varDrop, hv[2]); }
    else { a.start(varRead, hv[0]); b.start(varMutate, hv[1]); c.start(varMutate, hv[2]); }
    a.join(); b.join(); c.join();
  }
  if(vf_live_heap_blocks() != 0) vf_failf("C09:release", "%ld heap block(s) still allocated after the last handle was dropped", vf_live_heap_blocks());
}

// ------------------------------------------------------------------------------------------------ RefCount::Ptr
static int g_destroyed;
struct Obj : public RefCount::Object { int magic; Obj() : magic(4711) {} ~Obj() { if(magic != 4711) vf_failf("C09:double-destroy", "object destroyed twice"); magic = 0; ++g_destroyed; } };
typedef RefCount::Ptr<Obj> P;
static P* hp[4];
static uint ptrCopyDrop(void* p) { P* h = (P*)p; { P c(*h); P d; d = c; if((*d).magic != 4711) vf_failf("C09:content", "handle designates a destroyed object"); } delete h; return 0; }
static uint ptrNull(void* p) { P* h = (P*)p; *h = (Obj*)0; delete h; return 0; }
static uint ptrSwap(void* p) { P* h = (P*)p; P other(new Obj()); h->swap(other); if((*h)->magic != 4711 || other->magic != 4711) vf_failf("C09:content", "swapped handle designates a destroyed object"); delete h; return 0; }
static void scenPtr(int variant)
{
  vf_heap_baseline(); g_destroyed = 0;
  int expected = 1;
  {
    P* base = new P(new Obj());
    for(int i = 0; i < 3; ++i) hp[i] = new P(*base);
    delete base;
    Thread a, b, c;
    if(variant == 0) { a.start(ptrCopyDrop, hp[0]); b.start(ptrNull, hp[1]); c.start(ptrCopyDrop, hp[2]); }
    else { a.start(ptrSwap, hp[0]); b.start(ptrCopyDrop, hp[1]); c.start(ptrNull, hp[2]); expected = 2; }
    a.join(); b.join(); c.join();
  }
  if(g_destroyed != expected) vf_failf("C09:release", "%d object(s) destroyed, expected %d", g_destroyed, expected);
  if(vf_live_heap_blocks() != 0) vf_failf("C09:release", "%ld heap block(s) still allocated after the last handle was dropped", vf_live_heap_blocks());
}

// ------------------------------------------------------------------------------------------------ Xml::Variant
static Xml::Variant* hx[4];
static uint xmlCopyDrop(void* p) { Xml::Variant* h = (Xml::Variant*)p; { Xml::Variant c(*h); Xml::Variant d; d = c; if(!d.isElement()) vf_failf("C09:content", "copy is not an element"); } delete h; return 0; }
static uint xmlMutate(void* p)
{
  Xml::Variant* h = (Xml::Variant*)p;
  h->toElement().type = String("changed");
  const Xml::Variant& c = *h;
  expectStr(c.toElement().type, "changed", "mutated element");
  delete h; return 0;
}
static uint xmlRead(void* p) { Xml::Variant* h = (Xml::Variant*)p; const Xml::Variant& c = *h; expectStr(c.toElement().type, "e", "shared element"); delete h; return 0; }
static uint xmlClear(void* p) { Xml::Variant* h = (Xml::Variant*)p; h->clear(); if(!h->isNull()) vf_failf("C09:content", "cleared Xml::Variant is not null"); delete h; return 0; }
static uint xmlAssignText(void* p) { Xml::Variant* h = (Xml::Variant*)p; *h = String("txt", 3); const Xml::Variant& c = *h; expectStr(c.toString(), "txt", "Xml::Variant assigned a text"); delete h; return 0; }
static uint xmlAssignVariant(void* p) { Xml::Variant* h = (Xml::Variant*)p; Xml::Variant o(String("o", 1)); *h = o; const Xml::Variant& c = *h; expectStr(c.toString(), "o", "Xml::Variant assigned another one"); delete h; return 0; }
static void scenXml(int variant)
{
  vf_heap_baseline();
  {
    Xml::Element e; e.line = e.column = 0; e.type = String("e");
    Xml::Variant* base = new Xml::Variant(e);
    for(int i = 0; i < 3; ++i) hx[i] = new Xml::Variant(*base);
    delete base;
    Thread a, b, c;
    if(variant == 0) { a.start(xmlCopyDrop, hx[0]); b.start(xmlMutate, hx[1]); c.start(xmlRead, hx[2]); }
    else if(variant == 1) { a.start(xmlMutate, hx[0]); b.start(xmlMutate, hx[1]); c.start(xmlCopyDrop, hx[2]); }
    else { a.start(xmlClear, hx[0]); b.start(xmlAssignText, hx[1]); c.start(xmlAssignVariant, hx[2]); }
    a.join(); b.join(); c.join();
  }
  if(vf_live_heap_blocks() != 0) vf_failf("C09:release", "%ld heap block(s) still allocated after the last handle was dropped", vf_live_heap_blocks());
}

struct Scen { const char* name; void (*fn)(int); int variants; };
static const Scen SCEN[] = {{"string", scenString, 6}, {"variant", scenVariant, 7}, {"ptr", scenPtr, 2}, {"xml", scenXml, 3}};
extern "C" int vf_scenario_count(void) { return (int)(sizeof(SCEN) / sizeof(*SCEN)); }
extern "C" const char* vf_scenario_name(int id) { return SCEN[id].name; }
extern "C" int vf_scenario_variants(int id) { return SCEN[id].variants; }
extern "C" void vf_scenario_run(int id, int variant) { SCEN[id].fn(variant); }
