// C06 (and the sequential part of C09): history harness for String.
// Three variables; operations act on s0 with arguments from {s0,s1,s2}; ROT operations permute the variables.
// Non-mutating queries (length, ==, find(char), startsWith ...) are checked after every transition; the C-string
// view and everything built on it changes the representation and is therefore an explicit operation (CSTR).
#define VF_LEDGER
#include <nstd/String.hpp>
#include <nstd/List.hpp>
#include <nstd/HashSet.hpp>
#include "engine/histbfs.hpp"
#include <algorithm>
#include <string>

#define LIB(...) do { vf::Track t_; __VA_ARGS__; } while(0)

struct Cfg
{
  int maxLen;
  int init;      // initial configuration (see H::H)
  int alpha;     // 0 = full alphabet, 1 = small alphabet (bytes a and space only) for the fix-point configuration
};

static const char L0[] = "";
static const char L1[] = "ab";
static const char L2[] = " a ";
static const char L3[] = "B";
static const char L4[] = "a";
static const char L5[] = " ";
static const char L6[] = "aa";

struct Bytes { const char* p; int n; };
static const Bytes BT[] = {{"a", 1}, {" ", 1}, {"ab", 2}, {"a b", 3}, {" a ", 3}, {"B", 1}, {"a\0b", 3}};
static const int NBT = 7;

static const int WILD = -1;
typedef std::vector<int> MStr;

static MStr ms(const char* p, int n) { MStr m; for(int i = 0; i < n; ++i) m.push_back((unsigned char)p[i]); return m; }
static std::string show(const MStr& m) { std::string s; for(size_t i = 0; i < m.size(); ++i) s += m[i] == WILD ? std::string("?") : vf::show(std::string(1, (char)m[i])); return s; }
static bool nulfree(const MStr& m) { for(size_t i = 0; i < m.size(); ++i) if(m[i] == 0 || m[i] == WILD) return false; return true; }
static std::string str(const MStr& m) { std::string s; for(size_t i = 0; i < m.size(); ++i) s += (char)m[i]; return s; }

struct H
{
  Cfg cfg;
  String* s[3];
  MStr m[3];
  char* range[2]; int rangeLen[2];
  char pristine[2][8];
  struct Op { int kind, x, y; };
  std::vector<Op> ops;
  bool opsValid;
  enum { NEWLIT, NEWBUF, NEWFILL, NEWCAP, ATTACH, COPYCTOR, ASSIGN, APPEND, PREPEND, APPENDBUF, PREPENDBUF, APPENDCHAR, CLEAR, DETACH, RESIZE, RESERVE, WRITE,
         REPLCHAR, REPLSTR, LOWER, UPPER, TRIM, SUBSTR, PRINTF, JOIN, CSTR, ROT, REPLVAR };

  static String* lit(int j)
  {
    String* r = 0;
    switch(j) { case 0: LIB(r = new String(L0)); break; case 1: LIB(r = new String(L1)); break; case 2: LIB(r = new String(L2)); break; default: LIB(r = new String(L3)); break; }
    return r;
  }
  static MStr litm(int j) { switch(j) { case 0: return ms(L0, 0); case 1: return ms(L1, 2); case 2: return ms(L2, 3); default: return ms(L3, 1); } }

  H(const Cfg& c) : cfg(c), opsValid(false)
  {
    vf::ledger().live_blocks = 0; vf::ledger().live_bytes = 0;
    // range 0: "ab " followed by a non-NUL byte (unterminated when attached with length 3); the byte after the
    // attached range is readable by design (the C-string view inspects it), the one after that is a red zone
    range[0] = (char*)malloc(4); memcpy(range[0], "ab Z", 4); rangeLen[0] = 3;
    // range 1: "ba" followed by NUL (terminated attached)
    range[1] = (char*)malloc(3); memcpy(range[1], "ba\0", 3); rangeLen[1] = 2;
    memcpy(pristine[0], range[0], 4); memcpy(pristine[1], range[1], 3);
    for(int i = 0; i < 3; ++i) LIB(s[i] = new String());
    // non-initial start states ("start from non-initial states too")
    switch(cfg.init)
    {
    case 1: set(0, lit(2), litm(2)); set(1, lit(1), litm(1)); break;                                  // literals
    case 2: LIB(s[0]->attach(range[0], 3)); m[0] = ms("ab ", 3); LIB(s[1]->attach(range[1], 2)); m[1] = ms("ba", 2); break;   // attached
    case 3: { String* a = 0; LIB(a = new String("a b", 3)); set(0, a, ms("a b", 3)); String* b = 0; LIB(b = new String(*a)); set(1, b, m[0]); String* d = 0; LIB(d = new String(*a)); set(2, d, m[0]); break; } // three sharers
    case 4: { String* a = 0; LIB(a = new String((usize)7)); LIB(a->append(" a", 2)); set(0, a, ms(" a", 2)); String* b = 0; LIB(b = new String(*a)); set(1, b, m[0]); break; } // slack + shared
    case 5: { String* a = 0; LIB(a = new String(" ab ", 4)); set(0, a, ms(" ab ", 4)); set(1, lit(3), litm(3)); LIB(s[2]->attach(range[0], 3)); m[2] = ms("ab ", 3); break; }
    default: break;
    }
    verify("initial state");
  }
  void set(int i, String* n, const MStr& mm) { LIB(delete s[i]); s[i] = n; m[i] = mm; }

  void add(int kind, int x = 0, int y = 0) { Op o = {kind, x, y}; ops.push_back(o); }
  bool small() const { return cfg.alpha == 1; }
  void buildOps()
  {
    ops.clear();
    int n = (int)m[0].size();
    int M = cfg.maxLen;
    for(int j = 0; j < 4; ++j) if((int)litm(j).size() <= M && !(small() && j == 3)) add(NEWLIT, j);
    for(int k = 0; k < NBT; ++k) if(BT[k].n <= M && !(small() && k >= 5)) add(NEWBUF, k);
    if(2 <= M) add(NEWFILL, 2, 'a');
    add(NEWFILL, 0, 'a');
    add(NEWCAP, 0); add(NEWCAP, 5);
    for(int r = 0; r < 2; ++r) if(rangeLen[r] <= M) add(ATTACH, r, rangeLen[r]);
    add(ATTACH, 0, 0); add(ATTACH, 0, 1); add(ATTACH, 1, 0);   // a prefix of a range, also the empty one: the byte behind it is not a terminator
    for(int j = 1; j < 3; ++j) add(COPYCTOR, j);
    for(int j = 0; j < 3; ++j) add(ASSIGN, j);
    for(int j = 0; j < 3; ++j) if(n + (int)m[j].size() <= M) { add(APPEND, j); add(PREPEND, j); }
    for(int k = 0; k < NBT; ++k) if(n + BT[k].n <= M && !(small() && k >= 5)) { add(APPENDBUF, k); add(PREPENDBUF, k); }
    if(n + 1 <= M) { add(APPENDCHAR, 'a'); add(APPENDCHAR, ' '); }
    add(CLEAR); add(DETACH);
    {
      int cap = (int)s[0]->capacity();
      int rs[] = {0, n - 1, n, n + 1, cap, cap + 1};
      std::vector<int> u(rs, rs + 6); std::sort(u.begin(), u.end()); u.erase(std::unique(u.begin(), u.end()), u.end());
      for(size_t j = 0; j < u.size(); ++j) if(u[j] >= 0 && u[j] <= M) add(RESIZE, u[j]);
      for(size_t j = 0; j < u.size(); ++j) if(u[j] >= 0 && u[j] <= M + 6) add(RESERVE, u[j]);
    }
    if(n) { add(WRITE, 0); if(n > 1) add(WRITE, n - 1); }
    bool nf = nulfree(m[0]);
    if(nf)
    {
      add(REPLCHAR, 'a', 'b'); add(REPLCHAR, ' ', 'a');
      for(int nd = 0; nd < 3; ++nd) for(int rp = 0; rp < 3; ++rp)
        if((int)replaceModel(m[0], needle(nd), repl(rp)).size() <= M) add(REPLSTR, nd, rp);
      if(nulfree(m[1]) && !m[1].empty() && nulfree(m[2]) && (int)replaceModel(m[0], m[1], m[2]).size() <= M) add(REPLVAR);
      add(LOWER); add(UPPER);
      add(TRIM, 0); add(TRIM, 1);
      for(int j = 1; j < 3; ++j) if(nulfree(m[j]) && (int)m[j].size() + 3 <= M) add(PRINTF, j);
    }
    add(SUBSTR, 1, -1); add(SUBSTR, -1, -1); add(SUBSTR, 0, 1); add(SUBSTR, 1, 1); add(SUBSTR, 5, 2); add(SUBSTR, -9, 2);
    if((int)(m[1].size() + m[2].size()) + 1 <= M) add(JOIN, 1, 2);
    if((int)(m[0].size() + m[1].size()) + 1 <= M) add(JOIN, 0, 1);
    add(CSTR);
    add(ROT, 1); add(ROT, 2);
    opsValid = true;
  }
  static MStr needle(int i) { return i == 0 ? ms("a", 1) : i == 1 ? ms("ab", 2) : ms(" ", 1); }
  static MStr repl(int i) { return i == 0 ? ms("", 0) : i == 1 ? ms("B", 1) : ms("aa", 2); }
  static MStr replaceModel(const MStr& in, const MStr& nd, const MStr& rp)
  {
    MStr out;
    size_t i = 0;
    while(i < in.size())
    {
      if(!nd.empty() && i + nd.size() <= in.size() && std::equal(nd.begin(), nd.end(), in.begin() + i)) { out.insert(out.end(), rp.begin(), rp.end()); i += nd.size(); }
      else out.push_back(in[i++]);
    }
    return out;
  }
  int nops() { if(!opsValid) buildOps(); return (int)ops.size(); }
  static const char* kindName(int k)
  {
    static const char* n[] = {"newFromLiteral", "newFromBuffer", "newFill", "newWithCapacity", "attach", "copyConstructFrom", "assignFrom", "append", "prepend", "appendBuf", "prependBuf",
      "appendChar", "clear", "detach", "resize", "reserve", "writeThroughCharPtr", "replaceChar", "replaceStr", "toLowerCase", "toUpperCase", "trim", "assignSubstr", "printf", "join",
      "cstringViewAndQueries", "rotateVariables", "replaceWithVariables"};
    return n[k];
  }
  std::string opname(int i)
  {
    if(!opsValid) buildOps();
    const Op& o = ops[i];
    return vf::fmt("s0.%s(%d,%d) {s0='%s' s1='%s' s2='%s'}", kindName(o.kind), o.x, o.y, show(m[0]).c_str(), show(m[1]).c_str(), show(m[2]).c_str());
  }

  void apply(int i)
  {
    if(!opsValid) buildOps();
    Op o = ops[i];
    opsValid = false;
    vf::hit((std::string("opcalls:") + kindName(o.kind)).c_str());
    String& a = *s[0];
    MStr& ma = m[0];
    switch(o.kind)
    {
    case NEWLIT: set(0, lit(o.x), litm(o.x)); break;
    case NEWBUF:
    {
      char* src = (char*)malloc(BT[o.x].n); memcpy(src, BT[o.x].p, BT[o.x].n);
      String* n = 0; LIB(n = new String(src, (usize)BT[o.x].n));
      free(src);
      set(0, n, ms(BT[o.x].p, BT[o.x].n));
      break;
    }
    case NEWFILL: { String* n = 0; LIB(n = new String((usize)o.x, (char)o.y)); set(0, n, MStr(o.x, o.y)); break; }
    case NEWCAP: { String* n = 0; LIB(n = new String((usize)o.x)); set(0, n, MStr()); break; }
    case ATTACH:
      memcpy(range[o.x], pristine[o.x], o.x == 0 ? 4 : 3);
      LIB(a.attach(range[o.x], (usize)o.y));
      ma = ms(range[o.x], o.y);
      break;
    case COPYCTOR: { String* n = 0; LIB(n = new String(*s[o.x])); set(0, n, m[o.x]); break; }
    case ASSIGN: { String& b = *s[o.x]; LIB(a = b); ma = m[o.x]; break; }
    case APPEND: { MStr arg = m[o.x]; String& b = *s[o.x]; LIB(a.append(b)); ma.insert(ma.end(), arg.begin(), arg.end()); break; }
    case PREPEND: { MStr arg = m[o.x]; String& b = *s[o.x]; LIB(a.prepend(b)); ma.insert(ma.begin(), arg.begin(), arg.end()); break; }
    case APPENDBUF: case PREPENDBUF:
    {
      char* src = (char*)malloc(BT[o.x].n); memcpy(src, BT[o.x].p, BT[o.x].n);
      MStr arg = ms(BT[o.x].p, BT[o.x].n);
      if(o.kind == APPENDBUF) { LIB(a.append(src, (usize)BT[o.x].n)); ma.insert(ma.end(), arg.begin(), arg.end()); }
      else { LIB(a.prepend(src, (usize)BT[o.x].n)); ma.insert(ma.begin(), arg.begin(), arg.end()); }
      free(src);
      break;
    }
    case APPENDCHAR: LIB(a.append((char)o.x)); ma.push_back(o.x); break;
    case CLEAR: LIB(a.clear()); ma.clear(); break;
    case DETACH: LIB(a.detach()); break;
    case RESIZE: LIB(a.resize((usize)o.x)); if(o.x <= (int)ma.size()) ma.resize(o.x); else while((int)ma.size() < o.x) ma.push_back(WILD); break;
    case RESERVE: LIB(a.reserve((usize)o.x)); break;
    case WRITE: { char* p = 0; LIB(p = (char*)a); p[o.x] = 'B'; ma[o.x] = 'B'; break; }
    case REPLCHAR: LIB(a.replace((char)o.x, (char)o.y)); for(size_t j = 0; j < ma.size(); ++j) if(ma[j] == o.x) ma[j] = o.y; break;
    case REPLSTR:
    {
      MStr nd = needle(o.x), rp = repl(o.y);
      String sn(str(nd).c_str(), nd.size()), sr(str(rp).c_str(), rp.size());
      LIB(a.replace(sn, sr));
      ma = replaceModel(ma, nd, rp);
      break;
    }
    case REPLVAR: { MStr r = replaceModel(ma, m[1], m[2]); LIB(a.replace(*s[1], *s[2])); ma = r; break; }
    case LOWER: LIB(a.toLowerCase()); for(size_t j = 0; j < ma.size(); ++j) if(ma[j] >= 'A' && ma[j] <= 'Z') ma[j] += 32; break;
    case UPPER: LIB(a.toUpperCase()); for(size_t j = 0; j < ma.size(); ++j) if(ma[j] >= 'a' && ma[j] <= 'z') ma[j] -= 32; break;
    case TRIM:
    {
      const char* chars = o.x == 0 ? " \t\r\n\v" : "a";
      if(o.x == 0) LIB(a.trim()); else LIB(a.trim("a"));
      size_t b = 0, e = ma.size();
      while(b < e && strchr(chars, ma[b])) ++b;
      while(e > b && strchr(chars, ma[e - 1])) --e;
      ma = MStr(ma.begin() + b, ma.begin() + e);
      break;
    }
    case SUBSTR:
    {
      LIB(a = a.substr((ssize)o.x, (ssize)o.y));
      long st = o.x, len = (long)ma.size();
      if(st < 0) { st = len + st; if(st < 0) st = 0; } else if(st > len) st = len;
      long en = o.y >= 0 ? std::min(len, st + (long)o.y) : len;
      ma = MStr(ma.begin() + st, ma.begin() + en);
      break;
    }
    case PRINTF:
    {
      const String& b = *s[o.x];
      int r = 0;
      LIB(r = a.printf("%s|%d", (const char*)b, 42));
      MStr want = m[o.x]; want.push_back('|'); want.push_back('4'); want.push_back('2');
      VF_CHECK(r == (int)want.size(), "C06:String:printf", "printf returned %d, expected %d", r, (int)want.size());
      ma = want;
      break;
    }
    case JOIN:
    {
      MStr want = m[o.x]; want.push_back(','); want.insert(want.end(), m[o.y].begin(), m[o.y].end());
      {
        vf::Track t_;
        List<String> l;
        l.append(*s[o.x]); l.append(*s[o.y]);
        a.join(l, ',');
      }
      ma = want;
      break;
    }
    case ROT: { std::swap(s[0], s[o.x]); std::swap(m[0], m[o.x]); break; }
    case CSTR: cstrQueries(); break;
    }
    verify(kindName(o.kind));
  }

  static int sgn(int x) { return x < 0 ? -1 : x > 0 ? 1 : 0; }

  void cstrQueries()
  {
    const String& a = *s[0];
    const char* p = 0;
    LIB(p = (const char*)a);
    MStr& ma = m[0];
    for(size_t j = 0; j < ma.size(); ++j) if(ma[j] == WILD) ma[j] = (unsigned char)p[j];
    VF_CHECK(p[ma.size()] == 0, "C06:String:cstring-terminator", "C-string view of '%s' is not NUL-terminated at length() (found byte %d)", show(ma).c_str(), (int)(unsigned char)p[ma.size()]);
    for(size_t j = 0; j < ma.size(); ++j) VF_CHECK((unsigned char)p[j] == ma[j], "C06:String:cstring-contents", "C-string view differs from the reference '%s' at %d", show(ma).c_str(), (int)j);
    if(!nulfree(ma)) return;
    std::string ra = str(ma);
    for(int j = 1; j < 3; ++j)
    {
      if(!nulfree(m[j])) continue;
      std::string rb = str(m[j]);
      const String& b = *s[j];
      int c = 0;
      LIB(c = a.compare(b));
      VF_CHECK(sgn(c) == sgn(strcmp(ra.c_str(), rb.c_str())), "C06:String:compare", "compare('%s','%s') = %d", ra.c_str(), rb.c_str(), c);
      bool lt = false; LIB(lt = a < b);
      VF_CHECK(lt == (ra < rb), "C06:String:less", "'%s' < '%s' gives %d", ra.c_str(), rb.c_str(), (int)lt);
      int ci = 0; LIB(ci = a.compareIgnoreCase(b));
      VF_CHECK(sgn(ci) == sgn(strcasecmp(ra.c_str(), rb.c_str())), "C06:String:compareIgnoreCase", "compareIgnoreCase('%s','%s') = %d", ra.c_str(), rb.c_str(), ci);
      if(!rb.empty())
      {
        const char* f = 0; LIB(f = a.find((const char*)b));
        size_t want = ra.find(rb);
        VF_CHECK((f ? (size_t)(f - p) : std::string::npos) == want, "C06:String:find-str", "find('%s') in '%s' wrong", rb.c_str(), ra.c_str());
        const char* fl = 0; LIB(fl = a.findLast((const char*)b));
        size_t wantl = ra.rfind(rb);
        VF_CHECK((fl ? (size_t)(fl - p) : std::string::npos) == wantl, "C06:String:findLast-str", "findLast('%s') in '%s' wrong", rb.c_str(), ra.c_str());
      }
      { // character-set searches with the other string as the set, and case-insensitive equality
        const char* fo = 0; LIB(fo = a.findOneOf((const char*)b));
        size_t wo = ra.find_first_of(rb);
        VF_CHECK((fo ? (size_t)(fo - p) : std::string::npos) == wo, "C06:String:findOneOf", "findOneOf('%s') in '%s' wrong", rb.c_str(), ra.c_str());
        for(size_t st = 0; st <= ra.size(); ++st)
        {
          const char* fs = 0; LIB(fs = a.findOneOf((const char*)b, st));
          size_t ws = ra.find_first_of(rb, st);
          VF_CHECK((fs ? (size_t)(fs - p) : std::string::npos) == ws, "C06:String:findOneOf-start", "findOneOf('%s', %d) in '%s' wrong", rb.c_str(), (int)st, ra.c_str());
        }
        const char* flo = 0; LIB(flo = a.findLastOf((const char*)b));
        size_t wlo = ra.find_last_of(rb);
        VF_CHECK((flo ? (size_t)(flo - p) : std::string::npos) == wlo, "C06:String:findLastOf", "findLastOf('%s') in '%s' wrong", rb.c_str(), ra.c_str());
        bool eic = false; LIB(eic = a.equalsIgnoreCase(b));
        VF_CHECK(eic == (strcasecmp(ra.c_str(), rb.c_str()) == 0), "C06:String:equalsIgnoreCase", "equalsIgnoreCase('%s','%s') = %d", ra.c_str(), rb.c_str(), (int)eic);
      }
    }
    { // token / split against a reference splitter
      std::vector<std::string> all; std::string cur;
      for(size_t j = 0; j <= ra.size(); ++j) { if(j == ra.size() || ra[j] == ' ') { all.push_back(cur); cur.clear(); } else cur += ra[j]; }
      std::vector<std::string> tok;
      usize start = 0;
      int guard = 0;
      while(start < a.length() && guard++ < 50) { String t; LIB(t = a.token(' ', start)); tok.push_back(std::string((const char*)t, t.length())); }
      std::vector<std::string> wantTok = all;
      if(!wantTok.empty() && wantTok.back().empty()) wantTok.pop_back();   // token() loop ends when start reaches the length
      VF_CHECK(tok == wantTok, "C06:String:token", "token(' ') loop over '%s' yields %d tokens, reference %d", ra.c_str(), (int)tok.size(), (int)wantTok.size());
      for(int skip = 0; skip < 2; ++skip)
      {
        std::vector<std::string> got, want;
        {
          vf::Track t_;
          List<String> l;
          l.append(String("old"));   // the result list is not fresh: split replaces its content
          usize cnt = a.split(l, " ", skip != 0);
          for(List<String>::Iterator it = l.begin(); it != l.end(); ++it) { vf::Untrack u; got.push_back(std::string((const char*)*it, it->length())); }
          vf::Untrack u;
          if(cnt != got.size()) got.push_back("<count mismatch>");
        }
        for(size_t j = 0; j < all.size(); ++j) if(!skip || !all[j].empty()) want.push_back(all[j]);
        VF_CHECK(got == want, "C06:String:split", "split('%s', skipEmpty=%d) yields %d tokens, reference %d", ra.c_str(), skip, (int)got.size(), (int)want.size());
        { // the set form: the distinct tokens
          std::vector<std::string> gotSet;
          {
            vf::Track t_;
            HashSet<String> hs;
            hs.append(String("old"));
            usize cnt = a.split(hs, " ", skip != 0);
            for(HashSet<String>::Iterator it = hs.begin(); it != hs.end(); ++it) { vf::Untrack u; gotSet.push_back(std::string((const char*)*it, it->length())); }
            vf::Untrack u;
            if(cnt != gotSet.size()) gotSet.push_back("<count mismatch>");
          }
          std::vector<std::string> wantSet = want;
          std::sort(wantSet.begin(), wantSet.end()); wantSet.erase(std::unique(wantSet.begin(), wantSet.end()), wantSet.end());
          std::sort(gotSet.begin(), gotSet.end());
          VF_CHECK(gotSet == wantSet, "C06:String:split-set", "split into a HashSet ('%s', skipEmpty=%d) yields %d distinct tokens, reference %d", ra.c_str(), skip, (int)gotSet.size(), (int)wantSet.size());
        }
      }
    }
    { // numeric view
      int v = 0; LIB(v = a.toInt());
      VF_CHECK(v == atoi(ra.c_str()), "C06:String:toInt", "toInt('%s') = %d", ra.c_str(), v);
    }
  }

  void verify(const char* after)
  {
    // C09: the operation worked on s0; a handle it did not name must still hold its bytes (a shared payload modified in place shows here)
    for(int i = 1; i < 3; ++i)
    {
      H* self = this;
      struct F { H* h; int i; const char* after; void operator()() { h->verifyVar(i, after); } } f = {self, i, after};
      VF_CHECK(vf::holds(f), "C09:String:modified-in-place", "after %s: s%d changed although the operation was applied to s0 (payload modified while another handle refers to it)", after, i);
    }
    for(int i = 0; i < 3; ++i) verifyVar(i, after);
    verifyPairs(after);
  }
  void verifyVar(int i, const char* after)
  {
    {
      String& x = *s[i];
      MStr& mm = m[i];
      VF_CHECK(x.length() == mm.size(), "C06:String:length", "after %s: s%d.length() = %d, reference %d ('%s')", after, i, (int)x.length(), (int)mm.size(), show(mm).c_str());
      VF_CHECK(x.isEmpty() == mm.empty(), "C06:String:isEmpty", "after %s: s%d.isEmpty() wrong", after, i);
#ifdef VF_INTERNALS
      const char* raw = x.data->str;
      for(size_t j = 0; j < mm.size(); ++j)
      {
        if(mm[j] == WILD) { mm[j] = (unsigned char)raw[j]; continue; }
        VF_CHECK((unsigned char)raw[j] == mm[j], "C06:String:contents", "after %s: s%d[%d] = %d, reference '%s'", after, i, (int)j, (int)(unsigned char)raw[j], show(mm).c_str());
      }
#endif
      if(nulfree(mm) || true)
      {
        bool hasWild = false; for(size_t j = 0; j < mm.size(); ++j) if(mm[j] == WILD) hasWild = true;
        if(!hasWild)
        {
          std::string r = str(mm);
          bool eq = false;
          { vf::Track t_; String tmp(r.data(), r.size()); eq = x == tmp && !(x != tmp); }
          VF_CHECK(eq, "C06:String:contents", "after %s: s%d != reference '%s'", after, i, show(mm).c_str());
          // len-based searches
          const char* f = x.find('a'); size_t w = r.find('a');
          const char* fl = x.findLast(' '); size_t wl = r.rfind(' ');
#ifdef VF_INTERNALS
          VF_CHECK((f ? (size_t)(f - x.data->str) : std::string::npos) == w, "C06:String:find-char", "after %s: s%d.find('a') wrong for '%s'", after, i, show(mm).c_str());
          VF_CHECK((fl ? (size_t)(fl - x.data->str) : std::string::npos) == wl, "C06:String:findLast-char", "after %s: s%d.findLast(' ') wrong for '%s'", after, i, show(mm).c_str());
#else
          VF_CHECK((f != 0) == (w != std::string::npos) && (fl != 0) == (wl != std::string::npos), "C06:String:find-char", "after %s: find(char) wrong", after);
#endif
        }
      }
    }
  }
  void verifyPairs(const char* after)
  {
    for(int i = 0; i < 3; ++i) for(int j = 0; j < 3; ++j)
    {
      bool wild = false;
      for(size_t q = 0; q < m[i].size(); ++q) if(m[i][q] == WILD) wild = true;
      for(size_t q = 0; q < m[j].size(); ++q) if(m[j][q] == WILD) wild = true;
      if(wild) continue;
      bool eq = m[i] == m[j];
      VF_CHECK((*s[i] == *s[j]) == eq && (*s[i] != *s[j]) == !eq, "C06:String:equality", "after %s: s%d == s%d gives %d, reference %d", after, i, j, (int)(*s[i] == *s[j]), (int)eq);
      bool sw = m[i].size() >= m[j].size() && std::equal(m[j].begin(), m[j].end(), m[i].begin());
      bool ew = m[i].size() >= m[j].size() && std::equal(m[j].begin(), m[j].end(), m[i].end() - m[j].size());
      VF_CHECK(s[i]->startsWith(*s[j]) == sw, "C06:String:startsWith", "after %s: '%s'.startsWith('%s') = %d", after, show(m[i]).c_str(), show(m[j]).c_str(), (int)!sw);
      VF_CHECK(s[i]->endsWith(*s[j]) == ew, "C06:String:endsWith", "after %s: '%s'.endsWith('%s') = %d", after, show(m[i]).c_str(), show(m[j]).c_str(), (int)!ew);
    }
    // literals and attached ranges must never be modified through a String
    VF_CHECK(memcmp(L1, "ab", 3) == 0 && memcmp(L2, " a ", 4) == 0 && memcmp(L3, "B", 2) == 0, "C06:String:literal-modified", "after %s: a literal was modified", after);
    VF_CHECK(memcmp(range[0], pristine[0], 4) == 0 && memcmp(range[1], pristine[1], 3) == 0, "C06:String:attached-memory-modified", "after %s: attached memory was modified", after);
#ifdef VF_INTERNALS
    // C09 (sequential part): the reference count of a shared block equals the number of handles designating it
    for(int i = 0; i < 3; ++i)
    {
      if(s[i]->data->ref == 0) continue;
      int sharers = 0;
      for(int j = 0; j < 3; ++j) if(s[j]->data == s[i]->data) ++sharers;
      VF_CHECK((int)s[i]->data->ref == sharers, "C09:String:refcount", "after %s: block of s%d has reference count %d but %d handle(s)", after, i, (int)s[i]->data->ref, sharers);
    }
#endif
  }

  std::string canon()
  {
    std::string c = "S";
    for(int i = 0; i < 3; ++i)
    {
      c += '|';
#ifdef VF_INTERNALS
      String& x = *s[i];
      char rep = 'O';
      if(x.data == &String::emptyData) rep = 'E';
      else if(x.data->ref == 0)
      {
        rep = 'L';
        if(x.data->str >= range[0] && x.data->str < range[0] + 4) rep = 'U';
        if(x.data->str >= range[1] && x.data->str < range[1] + 3) rep = 'T';
      }
      c += rep;
      if(rep == 'O')
      {
        int g = i;
        for(int j = 0; j < i; ++j) if(s[j]->data == x.data) { g = j; break; }
        int slack = (int)(x.data->capacity - x.data->len); if(slack > 5) slack = 5;
        c += vf::fmt("g%d r%d k%d t%d", g, (int)x.data->ref, slack, (int)(x.data->str[x.data->len] == 0));
      }
#endif
      c += ':';
      for(size_t j = 0; j < m[i].size(); ++j) c += vf::fmt("%02x", m[i][j] & 0xff);
    }
    return c;
  }

  void finish()
  {
    for(int i = 0; i < 3; ++i) { LIB(delete s[i]); s[i] = 0; }
    free(range[0]); free(range[1]);
    VF_CHECK(vf::ledger().live_blocks == 0, "C09:String:block-leak", "%lld heap block(s) still allocated after all Strings were destroyed", vf::ledger().live_blocks);
  }
};

int main(int argc, char** argv)
{
  vf::std_init(argc, argv);
  Cfg c;
  c.maxLen = (int)vf::argll(argc, argv, "--maxlen", 3);
  c.init = (int)vf::argll(argc, argv, "--init", 0);
  c.alpha = (int)vf::argll(argc, argv, "--alpha", 0);
  return vf::bfs_main<H, Cfg>(argc, argv, c, vf::fmt("String maxlen=%d init=%d alpha=%d", c.maxLen, c.init, c.alpha), 3);
}
