// C02 (String keys): HashMap<String,int> and HashSet<String> with genuinely colliding keys under hash(const String&)
// (same length, same first / middle / last byte), small capacities; history BFS against an insertion-ordered reference.
#define VF_LEDGER
#include <nstd/HashMap.hpp>
#include <nstd/HashSet.hpp>
#include <nstd/String.hpp>
#include "engine/histbfs.hpp"
#include <string>

#define LIB(...) do { vf::Track t_; __VA_ARGS__; } while(0)
struct Cfg { int capacity; };
// keys 0/1 collide (differ only at index 1 of 4: hash uses length, s[0], s[len/2], s[len-1]); 2 differs in length; 3 is empty; 4 collides with 0/1 too
static const char* KEYS[] = {"abcd", "aXcd", "abc", "", "a-cd"};
static const int NK = 5;
static String K(int i) { return String(KEYS[i], strlen(KEYS[i])); }
// the same keys as views attached to foreign memory that does not end behind them (the empty key is a zero-length view of a non-NUL byte):
// equal keys must hash and compare alike whatever their representation
static const char POOL[] = "abcdQaXcdQabcQQa-cdQ";
static const int POFF[] = {0, 5, 10, 14, 15};
static String KV(int i) { String v; v.attach(POOL + POFF[i], strlen(KEYS[i])); return v; }

struct H
{
  Cfg cfg;
  HashMap<String, int>* m; HashSet<String>* s;
  std::vector<std::pair<int, int> > rm; std::vector<int> rs;
  int nextVal;
  H(const Cfg& c) : cfg(c), nextVal(10)
  {
    vf::ledger().live_blocks = 0; vf::ledger().live_bytes = 0;
    LIB(m = new HashMap<String, int>((usize)cfg.capacity)); LIB(s = new HashSet<String>((usize)cfg.capacity));
  }
  int nops() { return NK * 4 + 2; }
  std::string opname(int i) { if(i >= NK * 4) return i == NK * 4 ? "map.clear" : "set.clear"; static const char* n[] = {"map.append", "map.remove", "set.prepend", "set.remove"}; return vf::fmt("%s('%s')", n[i / NK], KEYS[i % NK]); }
  int find(int k) { for(size_t i = 0; i < rm.size(); ++i) if(rm[i].first == k) return (int)i; return -1; }
  void apply(int i)
  {
    if(i == NK * 4) { LIB(m->clear()); rm.clear(); }
    else if(i == NK * 4 + 1) { LIB(s->clear()); rs.clear(); }
    else
    {
      int k = i % NK, what = i / NK;
      if(what == 0) { int v = nextVal++; { vf::Track t_; m->append(K(k), v); } int p = find(k); if(p >= 0) rm[p].second = v; else rm.push_back(std::make_pair(k, v)); }
      else if(what == 1) { { vf::Track t_; m->remove(KV(k)); } int p = find(k); if(p >= 0) rm.erase(rm.begin() + p); }
      else if(what == 2) { { vf::Track t_; s->prepend(K(k)); } bool has = false; for(size_t j = 0; j < rs.size(); ++j) if(rs[j] == k) has = true; if(!has) rs.insert(rs.begin(), k); }
      else { { vf::Track t_; s->remove(KV(k)); } for(size_t j = 0; j < rs.size(); ++j) if(rs[j] == k) { rs.erase(rs.begin() + j); break; } }
    }
    verify();
  }
  void verify()
  {
    VF_CHECK(m->size() == rm.size() && s->size() == rs.size(), "C02:StringKeys:size", "sizes %d/%d, reference %d/%d", (int)m->size(), (int)s->size(), (int)rm.size(), (int)rs.size());
    size_t i = 0;
    for(HashMap<String, int>::Iterator it = m->begin(); it != m->end() && i < rm.size(); ++it, ++i)
      VF_CHECK(std::string((const char*)it.key(), it.key().length()) == KEYS[rm[i].first] && *it == rm[i].second, "C02:StringKeys:order", "map entry %d is ('%s',%d), reference ('%s',%d)", (int)i, (const char*)it.key(), *it, KEYS[rm[i].first], rm[i].second);
    i = 0;
    for(HashSet<String>::Iterator it = s->begin(); it != s->end() && i < rs.size(); ++it, ++i)
      VF_CHECK(std::string((const char*)*it, it->length()) == KEYS[rs[i]], "C02:StringKeys:order", "set entry %d is '%s', reference '%s'", (int)i, (const char*)*it, KEYS[rs[i]]);
    for(int k = 0; k < NK; ++k)
    {
      bool inM, inS; int val = -1;
      { vf::Track t_; String key = K(k); HashMap<String, int>::Iterator it = m->find(key); inM = it != m->end(); if(inM) val = *it; inS = s->contains(key); }
      { vf::Track t_; String view = KV(k); HashMap<String, int>::Iterator it = m->find(view); bool vm = it != m->end(); bool vs = s->contains(view);
        vf::Untrack u_; VF_CHECK(vm == inM && vs == inS, "C02:StringKeys:representation", "lookup of '%s' as an attached view gives %d/%d, as an owned string %d/%d", KEYS[k], (int)vm, (int)vs, (int)inM, (int)inS); }
      int p = find(k); bool hs = false; for(size_t j = 0; j < rs.size(); ++j) if(rs[j] == k) hs = true;
      VF_CHECK(inM == (p >= 0) && (!inM || val == rm[p].second), "C02:StringKeys:find", "map.find('%s') wrong", KEYS[k]);
      VF_CHECK(inS == hs, "C02:StringKeys:contains", "set.contains('%s') = %d", KEYS[k], (int)inS);
    }
  }
  std::string canon()
  {
    std::string c = "M:"; for(size_t i = 0; i < rm.size(); ++i) c += (char)('0' + rm[i].first);
    c += "|S:"; for(size_t i = 0; i < rs.size(); ++i) c += (char)('0' + rs[i]);
    return c;
  }
  void finish()
  {
    LIB(delete m); LIB(delete s);
    VF_CHECK(vf::ledger().live_blocks == 0, "C04:StringKeys:memory-leak", "%lld heap block(s) still allocated", vf::ledger().live_blocks);
  }
};
int main(int argc, char** argv)
{
  vf::std_init(argc, argv);
  Cfg c; c.capacity = (int)vf::argll(argc, argv, "--capacity", 2);
  return vf::bfs_main<H, Cfg>(argc, argv, c, vf::fmt("String keys cap=%d", c.capacity), 64);
}
