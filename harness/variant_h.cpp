// C07 (and the Variant part of C09): history harness for Variant.
// Three variables; operations act on v0 with arguments from {v0,v1,v2}; ROT permutes the variables.
#define VF_LEDGER
#include <nstd/Variant.hpp>
#include "engine/histbfs.hpp"
#include <algorithm>
#include <string>
#include <map>
#include <limits.h>
#include <stdlib.h>

#define LIB(...) do { vf::Track t_; __VA_ARGS__; } while(0)

struct Cfg { int maxNodes; int init; };

// ---------------------------------------------------------------- value model
struct Val
{
  int type;                 // Variant::Type
  bool b; double d; int i; unsigned u; long long i64; unsigned long long u64;
  std::string s;
  std::vector<Val> items;                              // list / array
  std::vector<std::pair<std::string, Val> > map;       // insertion ordered
  Val() : type(Variant::nullType), b(false), d(0), i(0), u(0), i64(0), u64(0) {}
  bool operator==(const Val& o) const
  {
    if(type != o.type) return false;
    switch(type)
    {
    case Variant::nullType: return true;
    case Variant::boolType: return b == o.b;
    case Variant::doubleType: return d == o.d;
    case Variant::intType: return i == o.i;
    case Variant::uintType: return u == o.u;
    case Variant::int64Type: return i64 == o.i64;
    case Variant::uint64Type: return u64 == o.u64;
    case Variant::stringType: return s == o.s;
    case Variant::listType: case Variant::arrayType: return items == o.items;
    default: return map == o.map;
    }
  }
  int nodes() const
  {
    int n = 1;
    for(size_t k = 0; k < items.size(); ++k) n += items[k].nodes();
    for(size_t k = 0; k < map.size(); ++k) n += map[k].second.nodes();
    return n;
  }
  int depth() const
  {
    int d = 0;
    for(size_t k = 0; k < items.size(); ++k) d = std::max(d, items[k].depth());
    for(size_t k = 0; k < map.size(); ++k) d = std::max(d, map[k].second.depth());
    return d + 1;
  }
  std::string str() const
  {
    switch(type)
    {
    case Variant::nullType: return "null";
    case Variant::boolType: return b ? "true" : "false";
    case Variant::doubleType: return vf::fmt("%gd", d);
    case Variant::intType: return vf::fmt("%di", i);
    case Variant::uintType: return vf::fmt("%uu", u);
    case Variant::int64Type: return vf::fmt("%lldL", i64);
    case Variant::uint64Type: return vf::fmt("%lluUL", u64);
    case Variant::stringType: return "\"" + s + "\"";
    case Variant::listType: case Variant::arrayType:
    {
      std::string r = type == Variant::listType ? "[" : "<";
      for(size_t k = 0; k < items.size(); ++k) r += (k ? "," : "") + items[k].str();
      return r + (type == Variant::listType ? "]" : ">");
    }
    default:
    {
      std::string r = "{";
      for(size_t k = 0; k < map.size(); ++k) r += (k ? "," : "") + map[k].first + ":" + map[k].second.str();
      return r + "}";
    }
    }
  }
};
static Val vnull() { return Val(); }
static Val vbool(bool b) { Val v; v.type = Variant::boolType; v.b = b; return v; }
static Val vint(int i) { Val v; v.type = Variant::intType; v.i = i; return v; }
static Val vuint(unsigned u) { Val v; v.type = Variant::uintType; v.u = u; return v; }
static Val vi64(long long i) { Val v; v.type = Variant::int64Type; v.i64 = i; return v; }
static Val vu64(unsigned long long u) { Val v; v.type = Variant::uint64Type; v.u64 = u; return v; }
static Val vdbl(double d) { Val v; v.type = Variant::doubleType; v.d = d; return v; }
static Val vstr(const std::string& s) { Val v; v.type = Variant::stringType; v.s = s; return v; }
static Val vlist(const std::vector<Val>& it, bool array = false) { Val v; v.type = array ? Variant::arrayType : Variant::listType; v.items = it; return v; }

// String::toBool as documented by its implementation
static bool strToBool(const std::string& s)
{
  if(s.empty() || strcasecmp(s.c_str(), "false") == 0 || s == "0") return false;
  const char* p = s.c_str();
  for(; *p == '0'; ++p);
  if(*p == '.')
  {
    for(++p; *p == '0'; ++p);
    if(!*p && (p[-1] == '0' || s[0] == '0')) return false;
  }
  return true;
}

// coercions of the model (the C conversions the statement refers to)
static bool mBool(const Val& v) { switch(v.type) { case Variant::boolType: return v.b; case Variant::doubleType: return v.d != 0.; case Variant::intType: return v.i != 0; case Variant::uintType: return v.u != 0;
  case Variant::int64Type: return v.i64 != 0; case Variant::uint64Type: return v.u64 != 0; case Variant::stringType: return strToBool(v.s); default: return false; } }
static double mDouble(const Val& v) { switch(v.type) { case Variant::boolType: return v.b ? 1. : 0.; case Variant::doubleType: return v.d; case Variant::intType: return (double)v.i; case Variant::uintType: return (double)v.u;
  case Variant::int64Type: return (double)v.i64; case Variant::uint64Type: return (double)v.u64; case Variant::stringType: return atof(v.s.c_str()); default: return 0.; } }
static long long mI64(const Val& v) { switch(v.type) { case Variant::boolType: return v.b ? 1 : 0; case Variant::doubleType: return (long long)v.d; case Variant::intType: return v.i; case Variant::uintType: return v.u;
  case Variant::int64Type: return v.i64; case Variant::uint64Type: return (long long)v.u64; case Variant::stringType: return atoll(v.s.c_str()); default: return 0; } }
static unsigned long long mU64(const Val& v) { switch(v.type) { case Variant::boolType: return v.b ? 1 : 0; case Variant::doubleType: return (unsigned long long)v.d; case Variant::intType: return (unsigned long long)v.i; case Variant::uintType: return v.u;
  case Variant::int64Type: return (unsigned long long)v.i64; case Variant::uint64Type: return v.u64; case Variant::stringType: return strtoull(v.s.c_str(), 0, 10); default: return 0; } }
static int mInt(const Val& v) { switch(v.type) { case Variant::doubleType: return (int)v.d; case Variant::uintType: return (int)v.u; case Variant::int64Type: return (int)v.i64; case Variant::uint64Type: return (int)v.u64;
  case Variant::stringType: return atoi(v.s.c_str()); default: return (int)mI64(v); } }
static unsigned mUInt(const Val& v) { switch(v.type) { case Variant::doubleType: return (unsigned)v.d; case Variant::intType: return (unsigned)v.i; case Variant::int64Type: return (unsigned)v.i64; case Variant::uint64Type: return (unsigned)v.u64;
  case Variant::stringType: return (unsigned)strtoul(v.s.c_str(), 0, 10); default: return (unsigned)mU64(v); } }
static std::string mString(const Val& v) { switch(v.type) { case Variant::boolType: return v.b ? "true" : "false"; case Variant::doubleType: return vf::fmt("%f", v.d); case Variant::intType: return vf::fmt("%d", v.i);
  case Variant::uintType: return vf::fmt("%u", v.u); case Variant::int64Type: return vf::fmt("%lld", v.i64); case Variant::uint64Type: return vf::fmt("%llu", v.u64); case Variant::stringType: return v.s; default: return ""; } }

// build a real Variant from a model value (used for literals)
static Variant build(const Val& m)
{
  switch(m.type)
  {
  case Variant::nullType: return Variant();
  case Variant::boolType: return Variant(m.b);
  case Variant::doubleType: return Variant(m.d);
  case Variant::intType: return Variant(m.i);
  case Variant::uintType: return Variant((uint)m.u);
  case Variant::int64Type: return Variant((int64)m.i64);
  case Variant::uint64Type: return Variant((uint64)m.u64);
  case Variant::stringType: return Variant(String(m.s.data(), m.s.size()));
  case Variant::listType: { List<Variant> l; for(size_t k = 0; k < m.items.size(); ++k) l.append(build(m.items[k])); return Variant(l); }
  case Variant::arrayType: { Array<Variant> a; for(size_t k = 0; k < m.items.size(); ++k) a.append(build(m.items[k])); return Variant(a); }
  default: { HashMap<String, Variant> h; for(size_t k = 0; k < m.map.size(); ++k) h.append(String(m.map[k].first.data(), m.map[k].first.size()), build(m.map[k].second)); return Variant(h); }
  }
}

static std::vector<Val> literals()
{
  std::vector<Val> L;
  L.push_back(vbool(true)); L.push_back(vbool(false));
  L.push_back(vint(0)); L.push_back(vint(-3)); L.push_back(vint(INT_MAX));
  L.push_back(vuint(7)); L.push_back(vuint(4000000000u));
  L.push_back(vi64(-5000000000ll)); L.push_back(vu64(18000000000000000000ull));
  L.push_back(vdbl(1.5)); L.push_back(vdbl(-2.0)); L.push_back(vdbl(0.0));
  const char* strs[] = {"", "12", "-3", "abc", "1.5", "0", "false"};
  for(int k = 0; k < 7; ++k) L.push_back(vstr(strs[k]));
  std::vector<Val> e;
  L.push_back(vlist(e));
  { std::vector<Val> a; a.push_back(vint(1)); a.push_back(vstr("a")); L.push_back(vlist(a)); }
  { std::vector<Val> in; in.push_back(vint(2)); std::vector<Val> a; a.push_back(vlist(in)); L.push_back(vlist(a)); }
  L.push_back(vlist(e, true));
  { std::vector<Val> a; a.push_back(vint(1)); a.push_back(vint(2)); L.push_back(vlist(a, true)); }
  { Val mm; mm.type = Variant::mapType; L.push_back(mm); }
  { Val mm; mm.type = Variant::mapType; mm.map.push_back(std::make_pair(std::string("k"), vint(1))); L.push_back(mm); }
  return L;
}

struct H
{
  Cfg cfg;
  Variant* v[3];
  Val m[3];
  int ver[3];      // value version: equal versions <=> one is an (unmodified) copy of the other
  int nextVer;
  std::vector<Val> lits;
  struct Op { int kind, x, y; };
  std::vector<Op> ops;
  bool opsValid;
  enum { CLEAR, SETLIT, ASSIGN, COPYCTOR, SWAP, STRAPPEND, LISTAPPEND, LISTREMFRONT, LISTSETFRONT, NESTEDAPPEND, ARRAPPEND, MAPSET, MAPREMOVE, ASSIGNFRONT,
         MUTLIST, MUTARRAY, MUTMAP, MUTSTRING, ROT, TYPEDASSIGN };

  H(const Cfg& c) : cfg(c), lits(literals()), opsValid(false), nextVer(10)
  {
    ver[0] = 1; ver[1] = 2; ver[2] = 3;
    vf::ledger().live_blocks = 0; vf::ledger().live_bytes = 0;
    for(int i = 0; i < 3; ++i) LIB(v[i] = new Variant());
    switch(cfg.init)
    {
    case 1: setLit(0, 20); LIB(*v[1] = *v[0]); m[1] = m[0]; LIB(*v[2] = *v[0]); m[2] = m[0]; ver[1] = ver[2] = ver[0]; break;                 // three sharers of one list [1,"a"]
    case 2: setLit(0, 23); LIB(*v[1] = *v[0]); m[1] = m[0]; ver[1] = ver[0]; setLit(2, 15); break;                                   // shared array <1,2>; string "abc"
    case 3: setLit(0, 25); LIB(*v[1] = *v[0]); m[1] = m[0]; ver[1] = ver[0]; setLit(2, 21); break;                                   // shared map {k:1}; nested list [[2]]
    default: break;
    }
    verify("initial state");
  }
  void setLit(int i, int k) { LIB(*v[i] = build(lits[k])); m[i] = lits[k]; }

  void add(int kind, int x = 0, int y = 0) { Op o = {kind, x, y}; ops.push_back(o); }
  bool fits(const Val& nv) const { return nv.nodes() <= cfg.maxNodes && nv.depth() <= 4; }
  void buildOps()
  {
    ops.clear();
    add(CLEAR);
    for(size_t k = 0; k < lits.size(); ++k) add(SETLIT, (int)k);
    for(int j = 0; j < 3; ++j) add(ASSIGN, j);
    for(int j = 1; j < 3; ++j) { add(COPYCTOR, j); add(SWAP, j); add(SWAP, j, 1); }
    add(SWAP, 0);
    add(STRAPPEND);
    for(int j = 1; j < 3; ++j) // j = 0 (inserting a Variant into its own payload) is user-level aliasing outside the statement
    {
      Val l = asList(m[0], Variant::listType); l.items.push_back(m[j]); if(fits(l)) add(LISTAPPEND, j);
      Val a = asList(m[0], Variant::arrayType); a.items.push_back(m[j]); if(fits(a)) add(ARRAPPEND, j);
      Val mp = asMap(m[0]); mp.map.push_back(std::make_pair(std::string("k"), m[j])); if(fits(mp)) { add(MAPSET, 0, j); add(MAPSET, 1, j); }
    }
    add(MAPREMOVE, 0);
    if(m[0].type == Variant::listType && !m[0].items.empty())
    {
      add(LISTREMFRONT); add(LISTSETFRONT); add(ASSIGNFRONT);
      Val f = asList(m[0].items[0], Variant::listType); f.items.push_back(vint(5));
      Val l = m[0]; l.items[0] = f; if(fits(l)) add(NESTEDAPPEND);
    }
    add(MUTLIST); add(MUTARRAY); add(MUTMAP); add(MUTSTRING);
    add(TYPEDASSIGN, 0); add(TYPEDASSIGN, 1); add(TYPEDASSIGN, 2); add(TYPEDASSIGN, 3);
    add(ROT, 1); add(ROT, 2);
    opsValid = true;
  }
  // mutable accessors coerce: a value of another type becomes an empty container
  static Val asList(const Val& x, int type) { if(x.type == type) return x; Val r; r.type = type; return r; }
  static Val asMap(const Val& x) { if(x.type == Variant::mapType) return x; Val r; r.type = Variant::mapType; return r; }
  int nops() { if(!opsValid) buildOps(); return (int)ops.size(); }
  static const char* kindName(int k)
  {
    static const char* n[] = {"clear", "assignLiteral", "assignFrom", "copyConstructFrom", "swapWith", "toString().append", "toList().append", "toList().removeFront", "toList().front()=9",
      "toList().front().toList().append", "toArray().append", "toMap().append", "toMap().remove", "v0=v0.toList().front()", "toList()", "toArray()", "toMap()", "toString()", "rotateVariables", "typedAssign"};
    return n[k];
  }
  std::string opname(int i)
  {
    if(!opsValid) buildOps();
    const Op& o = ops[i];
    std::string arg = o.kind == SETLIT ? lits[o.x].str() : vf::fmt("%d,%d", o.x, o.y);
    return vf::fmt("v0.%s(%s) {v0=%s v1=%s v2=%s}", kindName(o.kind), arg.c_str(), m[0].str().c_str(), m[1].str().c_str(), m[2].str().c_str());
  }

  void apply(int i)
  {
    if(!opsValid) buildOps();
    Op o = ops[i];
    opsValid = false;
    vf::hit((std::string("opcalls:") + kindName(o.kind)).c_str());
    Variant& a = *v[0];
    Val& ma = m[0];
    {
      Val before = ma;
      int keep = ver[0];
      ver[0] = nextVer++;
      // operations that leave the value of v0 untouched keep its version; copies take the source's version
      if(o.kind == ASSIGN || o.kind == COPYCTOR) ver[0] = o.x == 0 ? keep : ver[o.x];
      else if(o.kind == SWAP) { ver[0] = ver[o.x]; ver[o.x] = keep; if(o.x == 0) ver[0] = keep; }
      else if(o.kind == ROT) { ver[0] = ver[o.x]; ver[o.x] = keep; }
      else if((o.kind == MUTLIST && before.type == Variant::listType) || (o.kind == MUTARRAY && before.type == Variant::arrayType) ||
              (o.kind == MUTMAP && before.type == Variant::mapType) || (o.kind == MUTSTRING && before.type == Variant::stringType)) ver[0] = keep;
    }
    switch(o.kind)
    {
    case CLEAR: LIB(a.clear()); ma = vnull(); break;
    case SETLIT:
    {
      const Val& l = lits[o.x];
      // scalars through the typed assignment operators, containers/strings through a temporary Variant
      switch(l.type)
      {
      case Variant::boolType: LIB(a = l.b); break;
      case Variant::intType: LIB(a = l.i); break;
      case Variant::uintType: LIB(a = (uint)l.u); break;
      case Variant::int64Type: LIB(a = (int64)l.i64); break;
      case Variant::uint64Type: LIB(a = (uint64)l.u64); break;
      case Variant::doubleType: LIB(a = l.d); break;
      default: LIB(a = build(l)); break;
      }
      ma = l;
      break;
    }
    case TYPEDASSIGN:
    { // typed container/string assignment operators (in-place branch when the type matches and the payload is not shared)
      if(o.x == 0) { { vf::Track t_; String s("xy"); a = s; } ma = vstr("xy"); }
      else if(o.x == 1) { { vf::Track t_; List<Variant> l; l.append(Variant(4)); a = l; } std::vector<Val> it; it.push_back(vint(4)); ma = vlist(it); }
      else if(o.x == 2) { { vf::Track t_; Array<Variant> l; l.append(Variant(4)); a = l; } std::vector<Val> it; it.push_back(vint(4)); ma = vlist(it, true); }
      else { { vf::Track t_; HashMap<String, Variant> h; h.append(String("z"), Variant(true)); a = h; } Val mm; mm.type = Variant::mapType; mm.map.push_back(std::make_pair(std::string("z"), vbool(true))); ma = mm; }
      break;
    }
    case ASSIGN: { Variant& b = *v[o.x]; LIB(a = b); ma = m[o.x]; break; }
    case COPYCTOR: { Variant* n = 0; LIB(n = new Variant(*v[o.x])); LIB(delete v[0]); v[0] = n; ma = m[o.x]; break; }
    case SWAP: { Variant& b = *v[o.x]; if(o.y) LIB(b.swap(a)); else LIB(a.swap(b)); std::swap(m[0], m[o.x]); break; }
    case STRAPPEND: LIB(a.toString().append("x", 1)); ma = vstr(mString(ma) + "x"); break;
    case MUTSTRING: LIB(a.toString()); ma = vstr(mString(ma)); break;
    case MUTLIST: LIB(a.toList()); ma = asList(ma, Variant::listType); break;
    case MUTARRAY: LIB(a.toArray()); ma = asList(ma, Variant::arrayType); break;
    case MUTMAP: LIB(a.toMap()); ma = asMap(ma); break;
    case LISTAPPEND: { Val arg = m[o.x]; Variant& b = *v[o.x]; LIB(a.toList().append(b)); ma = asList(ma, Variant::listType); ma.items.push_back(arg); break; }
    case ARRAPPEND: { Val arg = m[o.x]; Variant& b = *v[o.x]; LIB(a.toArray().append(b)); ma = asList(ma, Variant::arrayType); ma.items.push_back(arg); break; }
    case MAPSET:
    {
      Val arg = m[o.y]; Variant& b = *v[o.y];
      const char* key = o.x ? "q" : "k";
      { vf::Track t_; a.toMap().append(String(key, 1), b); }
      ma = asMap(ma);
      bool found = false;
      for(size_t k = 0; k < ma.map.size(); ++k) if(ma.map[k].first == key) { ma.map[k].second = arg; found = true; }
      if(!found) ma.map.push_back(std::make_pair(std::string(key), arg));
      break;
    }
    case MAPREMOVE:
    {
      { vf::Track t_; a.toMap().remove(String("k", 1)); }
      ma = asMap(ma);
      for(size_t k = 0; k < ma.map.size(); ++k) if(ma.map[k].first == "k") { ma.map.erase(ma.map.begin() + k); break; }
      break;
    }
    case LISTREMFRONT: LIB(a.toList().removeFront()); ma.items.erase(ma.items.begin()); break;
    case LISTSETFRONT: LIB(a.toList().front() = 9); ma.items[0] = vint(9); break;
    case NESTEDAPPEND: { LIB(a.toList().front().toList().append(Variant(5))); Val f = asList(ma.items[0], Variant::listType); f.items.push_back(vint(5)); ma.items[0] = f; break; }
    case ASSIGNFRONT: { Val f = ma.items[0]; LIB(a = a.toList().front()); ma = f; break; }
    case ROT: std::swap(v[0], v[o.x]); std::swap(m[0], m[o.x]); break;
    }
    verify(kindName(o.kind));
  }

  // deep comparison of a (const) Variant with a model value
  void cmp(const Variant& x, const Val& mm, const std::string& path, const char* after)
  {
    VF_CHECK((int)x.getType() == mm.type, "C07:Variant:type", "after %s: %s has type %d, reference %s", after, path.c_str(), (int)x.getType(), mm.str().c_str());
    VF_CHECK(x.isNull() == (mm.type == Variant::nullType), "C07:Variant:isNull", "after %s: %s.isNull() wrong", after, path.c_str());
    VF_CHECK(x.toBool() == mBool(mm), "C07:Variant:toBool", "after %s: %s.toBool() = %d, reference %s", after, path.c_str(), (int)x.toBool(), mm.str().c_str());
    VF_CHECK(x.toInt() == mInt(mm), "C07:Variant:toInt", "after %s: %s.toInt() = %d, reference %d (%s)", after, path.c_str(), x.toInt(), mInt(mm), mm.str().c_str());
    VF_CHECK(x.toUInt() == mUInt(mm), "C07:Variant:toUInt", "after %s: %s.toUInt() = %u, reference %u (%s)", after, path.c_str(), x.toUInt(), mUInt(mm), mm.str().c_str());
    VF_CHECK((long long)x.toInt64() == mI64(mm), "C07:Variant:toInt64", "after %s: %s.toInt64() = %lld, reference %lld (%s)", after, path.c_str(), (long long)x.toInt64(), mI64(mm), mm.str().c_str());
    VF_CHECK((unsigned long long)x.toUInt64() == mU64(mm), "C07:Variant:toUInt64", "after %s: %s.toUInt64() wrong (%s)", after, path.c_str(), mm.str().c_str());
    VF_CHECK(x.toDouble() == mDouble(mm), "C07:Variant:toDouble", "after %s: %s.toDouble() = %g, reference %g (%s)", after, path.c_str(), x.toDouble(), mDouble(mm), mm.str().c_str());
    {
      std::string got;
      { vf::Track t_; String s = x.toString(); vf::Untrack u; got.assign((const char*)s, s.length()); }
      VF_CHECK(got == mString(mm), "C07:Variant:toString", "after %s: %s.toString() = '%s', reference '%s'", after, path.c_str(), got.c_str(), mString(mm).c_str());
    }
    const List<Variant>& l = x.toList();
    const Array<Variant>& ar = x.toArray();
    const HashMap<String, Variant>& h = x.toMap();
    VF_CHECK(l.size() == (mm.type == Variant::listType ? mm.items.size() : 0), "C07:Variant:list-size", "after %s: %s.toList().size() = %d (%s)", after, path.c_str(), (int)l.size(), mm.str().c_str());
    VF_CHECK(ar.size() == (mm.type == Variant::arrayType ? mm.items.size() : 0), "C07:Variant:array-size", "after %s: %s.toArray().size() = %d (%s)", after, path.c_str(), (int)ar.size(), mm.str().c_str());
    VF_CHECK(h.size() == (mm.type == Variant::mapType ? mm.map.size() : 0), "C07:Variant:map-size", "after %s: %s.toMap().size() = %d (%s)", after, path.c_str(), (int)h.size(), mm.str().c_str());
    if(mm.type == Variant::listType) { size_t k = 0; for(List<Variant>::Iterator it = l.begin(); it != l.end() && k < mm.items.size(); ++it, ++k) cmp(*it, mm.items[k], path + vf::fmt("[%d]", (int)k), after); }
    if(mm.type == Variant::arrayType) { for(size_t k = 0; k < mm.items.size(); ++k) cmp(ar[k], mm.items[k], path + vf::fmt("<%d>", (int)k), after); }
    if(mm.type == Variant::mapType)
    {
      size_t k = 0;
      for(HashMap<String, Variant>::Iterator it = h.begin(); it != h.end() && k < mm.map.size(); ++it, ++k)
      {
        std::string key((const char*)it.key(), it.key().length());
        VF_CHECK(key == mm.map[k].first, "C07:Variant:map-key", "after %s: %s map key %d is '%s', reference '%s'", after, path.c_str(), (int)k, key.c_str(), mm.map[k].first.c_str());
        cmp(*it, mm.map[k].second, path + "{" + key + "}", after);
      }
    }
  }

#ifdef VF_INTERNALS
  void countHandles(const Variant& x, std::map<const void*, int>& cnt, std::map<const void*, int>& refs)
  {
    if(x.data->ref) { ++cnt[x.data]; refs[x.data] = (int)x.data->ref; }
    else return; // scalars and null are inline / static
    // nested handles are counted once per payload (the payload is shared, its children exist once)
    if(cnt[x.data] > 1) return;
    if(x.data->type == Variant::listType) { const List<Variant>& l = x.toList(); for(List<Variant>::Iterator it = l.begin(); it != l.end(); ++it) countHandles(*it, cnt, refs); }
    if(x.data->type == Variant::arrayType) { const Array<Variant>& a = x.toArray(); for(usize k = 0; k < a.size(); ++k) countHandles(a[k], cnt, refs); }
    if(x.data->type == Variant::mapType) { const HashMap<String, Variant>& h = x.toMap(); for(HashMap<String, Variant>::Iterator it = h.begin(); it != h.end(); ++it) countHandles(*it, cnt, refs); }
  }
#endif

  void verify(const char* after)
  {
    // C09: the operation worked on v0; a handle it did not name must still hold its value (a shared payload modified in place shows here)
    for(int i = 1; i < 3; ++i)
    {
      struct F { H* h; int i; const char* after; void operator()() { h->cmp(*h->v[i], h->m[i], vf::fmt("v%d", i), after); } } f = {this, i, after};
      VF_CHECK(vf::holds(f), "C09:Variant:modified-in-place", "after %s: v%d changed although the operation was applied to v0 (payload modified while another handle refers to it)", after, i);
    }
    for(int i = 0; i < 3; ++i) cmp(*v[i], m[i], vf::fmt("v%d", i), after);
    // a Variant compares equal to every copy of itself (model-equal values of the same type)
    for(int i = 0; i < 3; ++i) for(int j = 0; j < 3; ++j)
      if(ver[i] == ver[j])
      {
        if(!(m[i] == m[j])) vf::fail("harness:version-bookkeeping", "equal versions with different model values");
        bool eq = false, ne = true;
        LIB(eq = *v[i] == *v[j]; ne = *v[i] != *v[j]);
        VF_CHECK(eq && !ne, "C07:Variant:copy-equality", "after %s: v%d (%s) and v%d hold the same value but v%d == v%d is %d", after, i, m[i].str().c_str(), j, i, j, (int)eq);
      }
#ifdef VF_INTERNALS
    std::map<const void*, int> cnt, refs;
    for(int i = 0; i < 3; ++i) countHandles(*v[i], cnt, refs);
    for(std::map<const void*, int>::iterator it = cnt.begin(); it != cnt.end(); ++it)
      VF_CHECK(refs[it->first] == it->second, "C09:Variant:refcount", "after %s: a shared payload has reference count %d but %d handle(s) designate it", after, refs[it->first], it->second);
#endif
  }

  std::string canon()
  {
    std::string c = "V";
    for(int i = 0; i < 3; ++i)
    {
      c += "|" + m[i].str();
      { int g = i; for(int j = 0; j < i; ++j) if(ver[j] == ver[i]) { g = j; break; } c += vf::fmt("~%d", g); }
#ifdef VF_INTERNALS
      if(v[i]->data->ref)
      {
        int g = i;
        for(int j = 0; j < i; ++j) if(v[j]->data == v[i]->data) { g = j; break; }
        c += vf::fmt("#g%d r%d", g, (int)v[i]->data->ref);
      }
#endif
    }
    return c;
  }

  void finish()
  {
    for(int i = 0; i < 3; ++i) { LIB(delete v[i]); v[i] = 0; }
    VF_CHECK(vf::ledger().live_blocks == 0, "C09:Variant:block-leak", "%lld heap block(s) still allocated after all Variants were destroyed", vf::ledger().live_blocks);
  }
};

int main(int argc, char** argv)
{
  vf::std_init(argc, argv);
  Cfg c;
  c.maxNodes = (int)vf::argll(argc, argv, "--maxnodes", 5);
  c.init = (int)vf::argll(argc, argv, "--init", 0);
  return vf::bfs_main<H, Cfg>(argc, argv, c, vf::fmt("Variant maxnodes=%d init=%d", c.maxNodes, c.init), 3);
}
