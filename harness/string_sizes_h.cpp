// C06 (size boundaries): the String operations whose control flow depends on a length threshold rather than on the
// history - printf / fromPrintf (fixed first-attempt buffer, second attempt sized from the result), append / prepend /
// resize / reserve across every capacity rounding point - for every result length 0..--len and every initial
// representation of the target (empty, owned exact, owned with slack, shared with a copy, attached literal).
// Oracle: std::string reference, returned length, terminator, sharers unchanged, ASan (exactly sized operands).
#define VF_LEDGER
#include <nstd/String.hpp>
#include "engine/enum.hpp"
#include <string>
#include <ctype.h>

static std::string sstr(const String& s) { return std::string((const char*)s, s.length()); }
static std::string pat(int n, char base) { std::string s; for(int i = 0; i < n; ++i) s += (char)(base + i % 23); return s; }

struct Target
{
  String* s; String* sharer; std::string model, sharerModel; const char* name;
  Target(int kind) : s(0), sharer(0)
  {
    static const char LIT[] = "literal-value";
    switch(kind)
    {
    case 0: s = new String(); name = "empty"; break;
    case 1: { std::string m = pat(5, 'k'); s = new String(m.data(), m.size()); model = m; name = "owned"; break; }
    case 2: { std::string m = pat(5, 'k'); s = new String(m.data(), m.size()); s->reserve(260); model = m; name = "owned with slack 260"; break; }
    case 3: { std::string m = pat(9, 'p'); sharer = new String(m.data(), m.size()); s = new String(*sharer); model = sharerModel = m; name = "shared"; break; }
    default: s = new String(LIT); model = LIT; name = "literal"; break;
    }
  }
  ~Target() { delete s; delete sharer; }
};

static void check(Target& t, const std::string& want, const std::string& cs, const char* op)
{
  std::string got = sstr(*t.s);
  if(got != want) { vf::violation(std::string("C06:String:") + op, cs, "content '" + vf::show(got.substr(0, 80)) + "' (length " + vf::fmt("%d", (int)got.size()) + "), expected '" + vf::show(want.substr(0, 80)) + "' (length " + vf::fmt("%d", (int)want.size()) + ")"); return; }
  if(((const char*)*t.s)[t.s->length()] != '\0') vf::violation("C06:String:terminator", cs, "no terminator behind the content");
  if(t.sharer && sstr(*t.sharer) != t.sharerModel) vf::violation("C06:String:sharer-changed", cs, "a copy made before the operation changed with it");
}

int main(int argc, char** argv)
{
  vf::std_init(argc, argv);
  vf::Shard sh; sh.init(argc, argv);
  vf::ledger().enabled = true; vf::ledger().cap_bytes = 64ll << 20;
  int len = (int)vf::argll(argc, argv, "--len", 300);
  static const char* OPS[] = {"printf", "fromPrintf", "append", "prepend", "resize", "reserve", "appendChars"};
  for(int n = 0; n <= len; ++n) for(int kind = 0; kind < 5; ++kind) for(int op = 0; op < 7; ++op)
  {
    if(!sh.take()) continue;
    std::string cs = vf::fmt("sizes op=%s n=%d target=", OPS[op], n);
    vf::crumb("string.sizes", sh.token(), cs);
    vf::watchdog_arm(20000);
    long long before = vf::ledger().live_blocks;
    {
      Target t(kind); cs += t.name;
      std::string arg = pat(n, 'A');
      vf::Exact e(arg, true);                       // exactly sized, NUL-terminated operand
      switch(op)
      {
      case 0:
      {
        int r = t.s->printf("%s|%d", (const char*)e.p, 42);
        std::string want = arg + "|42";
        if(r != (int)want.size()) vf::violation("C06:String:printf", cs, vf::fmt("printf returned %d, expected %d", r, (int)want.size()));
        check(t, want, cs, "printf");
        break;
      }
      case 1:
      {
        *t.s = String::fromPrintf("%d|%s", 42, (const char*)e.p);
        check(t, "42|" + arg, cs, "fromPrintf");
        break;
      }
      case 2: t.s->append((const char*)e.p, (usize)n); check(t, t.model + arg, cs, "append"); break;
      case 3: t.s->prepend(String((const char*)e.p, (usize)n)); check(t, arg + t.model, cs, "prepend"); break;
      case 4:
      {
        t.s->resize((usize)n);
        std::string got = sstr(*t.s);
        size_t keep = std::min<size_t>((size_t)n, t.model.size());
        if(got.size() != (size_t)n || got.substr(0, keep) != t.model.substr(0, keep)) vf::violation("C06:String:resize", cs, "resize lost the length or the kept prefix");
        else if(((const char*)*t.s)[n] != '\0') vf::violation("C06:String:terminator", cs, "no terminator behind the content");
        if(t.sharer && sstr(*t.sharer) != t.sharerModel) vf::violation("C06:String:sharer-changed", cs, "a copy made before the operation changed with it");
        break;
      }
      case 5: t.s->reserve((usize)n); if(t.s->capacity() < (usize)n) vf::violation("C06:String:reserve", cs, "capacity below the reserved size"); check(t, t.model, cs, "reserve"); break;
      default: { std::string want = t.model; for(int i = 0; i < n; ++i) { t.s->append(arg[i]); want += arg[i]; } check(t, want, cs, "appendChar"); break; }
      }
    }
    if(vf::ledger().live_blocks != before) vf::violation("C06:String:leak", cs, vf::fmt("%lld heap block(s) left behind", vf::ledger().live_blocks - before));
    vf::hit("size_cases"); if(n >= 2) vf::hit("distinct_nontrivial");
    if(n == 201 && kind == 3 && op == 0) vf::sample(cs, 2);
  }
  // every byte value through the table-driven case mapping (ASCII letters map, every other byte stays): one table entry per character
  if(sh.take())
  {
    vf::crumb("string.bytes", sh.token(), "character tables");
    for(int b = 0; b < 256; ++b)
    {
      char c = (char)b;
      std::string cs = vf::fmt("character 0x%02x", b);
      int lo = b < 128 ? tolower(b) : b, up = b < 128 ? toupper(b) : b;
      if((unsigned char)String::toLowerCase(c) != lo) vf::violation("C06:String:toLowerCase", cs, vf::fmt("toLowerCase(char) gives 0x%02x, expected 0x%02x", (unsigned char)String::toLowerCase(c), lo));
      if((unsigned char)String::toUpperCase(c) != up) vf::violation("C06:String:toUpperCase", cs, vf::fmt("toUpperCase(char) gives 0x%02x, expected 0x%02x", (unsigned char)String::toUpperCase(c), up));
      if(b)
      {
        String a; a.append('x'); a.append(c); a.append('Y');
        String keep(a);
        String l(a); l.toLowerCase(); String u(a); u.toUpperCase();
        std::string wl = std::string("x") + (char)lo + "y", wu = std::string("X") + (char)up + "Y", orig = std::string("x") + c + "Y";
        if(sstr(l) != wl) vf::violation("C06:String:toLowerCase", cs, "toLowerCase() gives '" + vf::show(sstr(l)) + "', expected '" + vf::show(wl) + "'");
        if(sstr(u) != wu) vf::violation("C06:String:toUpperCase", cs, "toUpperCase() gives '" + vf::show(sstr(u)) + "', expected '" + vf::show(wu) + "'");
        if(sstr(a) != orig || sstr(keep) != orig) vf::violation("C06:String:sharer-changed", cs, "case mapping of a copy changed its source");
      }
      vf::hit("character_cases");
    }
  }
  vf::watchdog_disarm();
  vf::emit_counters();
  return 0;
}
