// C10: Future / worker pool under every bounded schedule.  This translation unit includes Future.cpp itself so that the
// file-local pool can be installed with chosen sizes before a run and shut down (exploring its destructor handshake) after it.
#include VF_FUTURE_CPP
#include <nstd/Thread.hpp>
#include "engine/sched/sched.h"
#include "engine/sched/sched_shared.h"

typedef Future<void>::Private FP;

static void installPool(usize minT, usize maxT, usize queue) { FP::_threadPool = new FP::ThreadPool(minT, maxT, queue); }
static void shutdownPool()
{
  FP::ThreadPool* p = FP::_threadPool;
  if(p) { delete p; FP::_threadPool = 0; }
}

// ------------------------------------------------------------------------------------------------ started functions
static volatile int g_pt;
static int execCount[8], bodyDone[8], echoed[8];
static int work(int id, int arg) { ++execCount[id]; echoed[id] = arg; g_pt = g_pt + 1; bodyDone[id] = 1; return arg * 10 + id; }
static int work0(int arg) { return work(0, arg); }
static int work1(int arg) { return work(1, arg); }
static int work2(int arg) { return work(2, arg); }
static void voidWork(int id) { ++execCount[id]; g_pt = g_pt + 1; bodyDone[id] = 1; }

static void checkCall(int id, int arg, int result, const char* who)
{
  if(!bodyDone[id]) vf_failf("C10:join-before-completion", "%s returned before the started function had finished (call %d)", who, id);
  if(execCount[id] != 1) vf_failf("C10:exactly-once", "call %d was executed %d times", id, execCount[id]);
  if(echoed[id] != arg) vf_failf("C10:arguments", "call %d received argument %d, expected %d", id, echoed[id], arg);
  if(result != arg * 10 + id) vf_failf("C10:result", "call %d: converted result %d, the function returned %d", id, result, arg * 10 + id);
}
template<class F> static void checkState(F& f, bool abortRequested, const char* who)
{
  if(f.isAborted() && !abortRequested) vf_failf("C10:state", "%s: isAborted() although abort() was not requested", who);
  if(!f.isAborted() && !f.isFinished()) vf_failf("C10:state", "%s: neither finished nor aborted after join", who);
}
static void finalCounts(int n)
{
  for(int i = 0; i < n; ++i) if(execCount[i] != 1) vf_failf("C10:exactly-once", "call %d was executed %d times", i, execCount[i]);
}

// ------------------------------------------------------------------------------------------------ result type with a lifetime
// a result object that notices when the started function's return value is stored into it after it has been destroyed
static int resLive, resAssignedToDead;
struct Res
{
  int magic; int* cell;
  Res() : magic(0x5e5), cell(new int(0)) { ++resLive; }
  Res(int v) : magic(0x5e5), cell(new int(v)) { ++resLive; }
  Res(const Res& o) : magic(0x5e5), cell(new int(o.magic == 0x5e5 ? *o.cell : -1)) { ++resLive; }
  ~Res() { if(magic == 0x5e5) { delete cell; cell = 0; magic = 0xdead; --resLive; } }
  Res& operator=(const Res& o) { if(magic != 0x5e5) { ++resAssignedToDead; return *this; } *cell = o.magic == 0x5e5 ? *o.cell : -1; return *this; }
};
static Res workRes(int arg) { ++execCount[2]; g_pt = g_pt + 1; bodyDone[2] = 1; return Res(arg * 10 + 2); }

// ------------------------------------------------------------------------------------------------ every start() overload
// free functions with 0..5 parameters and member functions with 0..4 parameters, with and without a result: each must run once with
// exactly the arguments given (distinct values per position) and deliver its own result
static int ovCalls[24]; static long ovArgs[24];
#define OV(id, expr) do { ++ovCalls[id]; ovArgs[id] = (expr); } while(0)
static void fv0() { OV(0, 0); }
static void fv1(int a) { OV(1, a); }
static void fv2(int a, int b) { OV(2, a * 10 + b); }
static void fv3(int a, int b, int c) { OV(3, (a * 10 + b) * 10 + c); }
static void fv4(int a, int b, int c, int d) { OV(4, ((a * 10 + b) * 10 + c) * 10 + d); }
static void fv5(int a, int b, int c, int d, int e) { OV(5, (((a * 10 + b) * 10 + c) * 10 + d) * 10 + e); }
static int fr0() { OV(6, 0); return 600; }
static int fr1(int a) { OV(7, a); return 700 + a; }
static int fr2(int a, int b) { OV(8, a * 10 + b); return 800 + a * 10 + b; }
static int fr3(int a, int b, int c) { OV(9, (a * 10 + b) * 10 + c); return 9000 + (a * 10 + b) * 10 + c; }
static int fr4(int a, int b, int c, int d) { OV(10, ((a * 10 + b) * 10 + c) * 10 + d); return 100000 + ((a * 10 + b) * 10 + c) * 10 + d; }
static int fr5(int a, int b, int c, int d, int e) { OV(11, (((a * 10 + b) * 10 + c) * 10 + d) * 10 + e); return 1100000 + (((a * 10 + b) * 10 + c) * 10 + d) * 10 + e; }
struct OvObj
{
  int tag;
  void mv0() { OV(12, tag); }
  void mv1(int a) { OV(13, tag * 10 + a); }
  void mv2(int a, int b) { OV(14, (tag * 10 + a) * 10 + b); }
  void mv3(int a, int b, int c) { OV(15, ((tag * 10 + a) * 10 + b) * 10 + c); }
  void mv4(int a, int b, int c, int d) { OV(16, (((tag * 10 + a) * 10 + b) * 10 + c) * 10 + d); }
  int mr0() { OV(17, tag); return 1700 + tag; }
  int mr1(int a) { OV(18, tag * 10 + a); return 1800 + a; }
  int mr2(int a, int b) { OV(19, (tag * 10 + a) * 10 + b); return 1900 + a * 10 + b; }
  int mr3(int a, int b, int c) { OV(20, ((tag * 10 + a) * 10 + b) * 10 + c); return 20000 + (a * 10 + b) * 10 + c; }
  int mr4(int a, int b, int c, int d) { OV(21, (((tag * 10 + a) * 10 + b) * 10 + c) * 10 + d); return 210000 + ((a * 10 + b) * 10 + c) * 10 + d; }
};
static void ovCheck(int id, long args, const char* what)
{
  if(ovCalls[id] != 1) vf_failf("C10:exactly-once", "%s was executed %d times", what, ovCalls[id]);
  else if(ovArgs[id] != args) vf_failf("C10:arguments", "%s received arguments encoded as %ld, given %ld", what, ovArgs[id], args);
}
static void ovResult(int got, int want, const char* what) { if(got != want) vf_failf("C10:result", "%s: converted result %d, the function returned %d", what, got, want); }
static void allOverloads()
{
  for(int i = 0; i < 24; ++i) { ovCalls[i] = 0; ovArgs[i] = -1; }
  OvObj o; o.tag = 9;
  { Future<void> f; f.start(fv0); f.join(); ovCheck(0, 0, "void f()"); }
  { Future<void> f; f.start(fv1, 1); f.join(); ovCheck(1, 1, "void f(a)"); }
  { Future<void> f; f.start(fv2, 1, 2); f.join(); ovCheck(2, 12, "void f(a,b)"); }
  { Future<void> f; f.start(fv3, 1, 2, 3); f.join(); ovCheck(3, 123, "void f(a,b,c)"); }
  { Future<void> f; f.start(fv4, 1, 2, 3, 4); f.join(); ovCheck(4, 1234, "void f(a,b,c,d)"); }
  { Future<void> f; f.start(fv5, 1, 2, 3, 4, 5); f.join(); ovCheck(5, 12345, "void f(a,b,c,d,e)"); }
  { Future<int> f; f.start(fr0); int r = f; ovCheck(6, 0, "int f()"); ovResult(r, 600, "int f()"); }
  { Future<int> f; f.start(fr1, 1); int r = f; ovCheck(7, 1, "int f(a)"); ovResult(r, 701, "int f(a)"); }
  { Future<int> f; f.start(fr2, 1, 2); int r = f; ovCheck(8, 12, "int f(a,b)"); ovResult(r, 812, "int f(a,b)"); }
  { Future<int> f; f.start(fr3, 1, 2, 3); int r = f; ovCheck(9, 123, "int f(a,b,c)"); ovResult(r, 9123, "int f(a,b,c)"); }
  { Future<int> f; f.start(fr4, 1, 2, 3, 4); int r = f; ovCheck(10, 1234, "int f(a,b,c,d)"); ovResult(r, 101234, "int f(a,b,c,d)"); }
  { Future<int> f; f.start(fr5, 1, 2, 3, 4, 5); int r = f; ovCheck(11, 12345, "int f(a,b,c,d,e)"); ovResult(r, 1112345, "int f(a,b,c,d,e)"); }
  { Future<void> f; f.start(o, &OvObj::mv0); f.join(); ovCheck(12, 9, "void C::m()"); }
  { Future<void> f; f.start(o, &OvObj::mv1, 1); f.join(); ovCheck(13, 91, "void C::m(a)"); }
  { Future<void> f; f.start(o, &OvObj::mv2, 1, 2); f.join(); ovCheck(14, 912, "void C::m(a,b)"); }
  { Future<void> f; f.start(o, &OvObj::mv3, 1, 2, 3); f.join(); ovCheck(15, 9123, "void C::m(a,b,c)"); }
  { Future<void> f; f.start(o, &OvObj::mv4, 1, 2, 3, 4); f.join(); ovCheck(16, 91234, "void C::m(a,b,c,d)"); }
  { Future<int> f; f.start(o, &OvObj::mr0); int r = f; ovCheck(17, 9, "int C::m()"); ovResult(r, 1709, "int C::m()"); }
  { Future<int> f; f.start(o, &OvObj::mr1, 1); int r = f; ovCheck(18, 91, "int C::m(a)"); ovResult(r, 1801, "int C::m(a)"); }
  { Future<int> f; f.start(o, &OvObj::mr2, 1, 2); int r = f; ovCheck(19, 912, "int C::m(a,b)"); ovResult(r, 1912, "int C::m(a,b)"); }
  { Future<int> f; f.start(o, &OvObj::mr3, 1, 2, 3); int r = f; ovCheck(20, 9123, "int C::m(a,b,c)"); ovResult(r, 20123, "int C::m(a,b,c)"); }
  { Future<int> f; f.start(o, &OvObj::mr4, 1, 2, 3, 4); int r = f; ovCheck(21, 91234, "int C::m(a,b,c,d)"); ovResult(r, 211234, "int C::m(a,b,c,d)"); }
}

// ------------------------------------------------------------------------------------------------ scenarios
static uint clientA(void*) { Future<int> f; f.start(work0, 3); int r = f; checkCall(0, 3, r, "result conversion"); checkState(f, false, "client A"); return 0; }
static uint clientB(void*) { Future<int> f; f.start(work1, 4); f.join(); int r = f; checkCall(1, 4, r, "join"); checkState(f, false, "client B"); return 0; }

static void scen(int variant)
{
  for(int i = 0; i < 8; ++i) execCount[i] = bodyDone[i] = echoed[i] = 0;
  vf_heap_baseline();
  int calls = 0;
  switch(variant)
  {
  case 0: // F1: one client, lazily created pool, result conversion and destructor
  {
    { Future<int> f; f.start(work0, 5); int r = f; checkCall(0, 5, r, "result conversion"); checkState(f, false, "F1"); }
    { Future<int> g; g.start(work1, 6); }      // destructor joins
    if(!bodyDone[1]) vf_failf("C10:join-before-completion", "the destructor returned before the started function had finished");
    resLive = resAssignedToDead = 0;
    { Future<Res> h; h.start(workRes, 4); }    // started and dropped: the result object must outlive the execution
    if(!bodyDone[2]) vf_failf("C10:join-before-completion", "the destructor of a Future with a class-type result returned before the started function had finished");
    if(resAssignedToDead) vf_failf("C10:join-before-completion", "the return value was stored into a result object that had already been destroyed");
    if(resLive != 0) vf_failf("C10:result", "%d result object(s) still alive after the Future was destroyed", resLive);
    { Future<Res> h; h.start(workRes, 5); Res r = h; if(*r.cell != 52) vf_failf("C10:result", "class-type result converted to %d, the function returned 52", *r.cell); }
    execCount[2] = 1;
    calls = 3;
    break;
  }
  case 1: // F2: two clients race for the lazy pool creation
  {
    Thread a, b; a.start(clientA, 0); b.start(clientB, 0); a.join(); b.join(); calls = 2;
    break;
  }
  case 2: // F2 with a one-slot queue: full-queue path (reset - retry - wait on the dequeued signal)
  {
    installPool(0, 3, 1);
    Thread a, b; a.start(clientA, 0); b.start(clientB, 0); a.join(); b.join(); calls = 2;
    break;
  }
  case 3: // F3: three futures started before any is joined (workers grow, race for jobs, idle again)
  {
    installPool(0, 3, 2);
    Future<int> f0, f1, f2;
    f0.start(work0, 1); f1.start(work1, 2); f2.start(work2, 3);
    int r2 = f2, r0 = f0, r1 = f1;
    checkCall(0, 1, r0, "conversion"); checkCall(1, 2, r1, "conversion"); checkCall(2, 3, r2, "conversion");
    calls = 3;
    break;
  }
  case 4: // F4: abort requested before the call has (necessarily) run
  {
    Future<int> f; f.start(work0, 7); f.abort(); f.join();
    if(!bodyDone[0]) vf_failf("C10:join-before-completion", "join returned before the started function had finished");
    checkState(f, true, "F4");
    vf_outcome("aborted=%d", (int)f.isAborted());
    calls = 1;
    break;
  }
  case 5: // F5: the same Future object started twice
  {
    Future<int> f; f.start(work0, 1); int r0 = f; checkCall(0, 1, r0, "first conversion");
    f.start(work1, 2); int r1 = f; checkCall(1, 2, r1, "second conversion"); checkState(f, false, "F5");
    calls = 2;
    break;
  }
  case 6: // F6: the clock jumps so that the shrink branch posts a terminate job while another job is queued
  {
    installPool(0, 3, 2);
    Future<int> f0, f1;
    f0.start(work0, 1); f1.start(work1, 2);
    int a = f0, b = f1; checkCall(0, 1, a, "conversion"); checkCall(1, 2, b, "conversion");
    vf_set_clock_ns(vf_now_ns() + 5000000000LL);
    Future<int> f2; f2.start(work2, 3); int c = f2; checkCall(2, 3, c, "conversion after the clock jump");
    vf_set_clock_ns(vf_now_ns() + 5000000000LL);
    Future<void> f3; f3.start(voidWork, 3); f3.join(); if(!bodyDone[3]) vf_failf("C10:join-before-completion", "join returned before the void function had finished");
    calls = 4;
    break;
  }
  case 10: // F11: every start() overload once, one after the other, on a one-worker pool
  {
    installPool(1, 1, 2);
    allOverloads();
    calls = 0;
    break;
  }
  case 9: // F10: an aborted call, then the same Future started again without abort: the old request must not leak into the new call
  {
    installPool(1, 3, 2);
    Future<int> f; f.start(work0, 7); f.abort(); f.join();
    checkState(f, true, "F10 first call");
    f.start(work1, 2); int r1 = f; checkCall(1, 2, r1, "conversion after an aborted call"); checkState(f, false, "F10 second call");
    vf_outcome("aborted=%d finished=%d", (int)f.isAborted(), (int)f.isFinished());
    calls = 2;
    break;
  }
  case 8: // F9: grow to three workers, then idle periods with one call each: the pool retires workers one by one but must keep serving
  {
    installPool(0, 3, 2);
    {
      Future<int> f0, f1, f2;
      f0.start(work0, 1); f1.start(work1, 2); f2.start(work2, 3);
      int r0 = f0, r1 = f1, r2 = f2;
      checkCall(0, 1, r0, "conversion"); checkCall(1, 2, r1, "conversion"); checkCall(2, 3, r2, "conversion");
    }
    for(int id = 3; id < 8; ++id)
    {
      vf_set_clock_ns(vf_now_ns() + 5000000000LL);
      Future<void> f; f.start(voidWork, id); f.join();
      if(!bodyDone[id]) vf_failf("C10:join-before-completion", "join returned before call %d had finished", id);
    }
    calls = 8;
    break;
  }
  default: // F7: void future with two arguments + member function style not needed; start-join twice from two threads on a preinstalled small pool
  {
    installPool(1, 3, 1);
    Thread a; a.start(clientA, 0);
    Future<int> f; f.start(work1, 4); int r = f; checkCall(1, 4, r, "conversion");
    a.join(); calls = 2;
    break;
  }
  }
  finalCounts(calls);
  shutdownPool();
  if(vf_live_heap_blocks() != 0) vf_failf("C10:call-record-leak", "%ld heap block(s) still allocated after all futures were joined and the pool was shut down", vf_live_heap_blocks());
}

extern "C" int vf_scenario_count(void) { return 1; }
extern "C" const char* vf_scenario_name(int) { return "future"; }
extern "C" int vf_scenario_variants(int) { return 11; }
extern "C" void vf_scenario_run(int, int variant) { scen(variant); }
