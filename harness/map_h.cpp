// History harness for Map / MultiMap (compile with -DVF_MULTI for MultiMap).
// Serves C01 (reference agreement, order, cost bound), C04 (lifetimes, deep
// copies, self arguments), C05 (address / iterator stability).
#define VF_LEDGER
#include <nstd/Map.hpp>
#include <nstd/MultiMap.hpp>
#include "engine/histbfs.hpp"
#include "engine/tracked.hpp"
#include <algorithm>
#include <math.h>

using vf::Tracked;
#define PTAG (std::string(ptag))
#define LIB(...) do { vf::Track t_; __VA_ARGS__; } while(0)

#ifdef VF_MULTI
typedef MultiMap<Tracked, Tracked> C;
static const bool MULTI = true;
#define CNAME "MultiMap"
#else
typedef Map<Tracked, Tracked> C;
static const bool MULTI = false;
#define CNAME "Map"
#endif

struct Cfg
{
  int K;          // key universe 0..K-1
  int maxSize;    // element cap (MultiMap needs one; Map is capped by K)
  bool selfOps;   // C04 alphabet: self assignment, own-element arguments, insert(self)
  bool hasCopy;   // container provides copy construction / assignment (probed at build time)
  int fib;        // > 0: every history starts from the minimal (Fibonacci-shaped) AVL tree of this height,
                  // built by level-order insertion; the alphabet is then remove(key)/insert(key) only
  bool mirror;    // Fibonacci tree leaning right instead of left
};

// keys of the minimal AVL tree of height h in level order (keys are in-order ranks)
struct FibNode { int h, lo, size, key; };
static int fibSize(int h) { return h <= 0 ? 0 : h == 1 ? 1 : 1 + fibSize(h - 1) + fibSize(h - 2); }
static std::vector<int> fibLevelOrder(int h, bool mirror)
{
  std::vector<int> out;
  std::vector<std::pair<int, int> > level; // (height, first in-order rank)
  level.push_back(std::make_pair(h, 0));
  while(!level.empty())
  {
    std::vector<std::pair<int, int> > next;
    for(size_t i = 0; i < level.size(); ++i)
    {
      int hh = level[i].first, lo = level[i].second;
      if(hh <= 0) continue;
      int lh = mirror ? hh - 2 : hh - 1, rh = mirror ? hh - 1 : hh - 2;
      if(hh == 1) { lh = rh = 0; }
      int ls = fibSize(lh);
      out.push_back(lo + ls);
      next.push_back(std::make_pair(lh, lo));
      next.push_back(std::make_pair(rh, lo + ls + 1));
    }
    level.swap(next);
  }
  return out;
}

struct Ent { int key, tag; const void* kaddr; const void* vaddr; };

static void faults()
{
  if(!vf::reg().fault.empty())
  {
    std::string f = vf::reg().fault;
    std::string kind = f.substr(0, f.find(':'));
    vf::fail("C04:" CNAME ":" + kind, f);
  }
}

struct H
{
  Cfg cfg;
  C* a;
  std::vector<Ent> ref;   // sorted by key, equal keys in container order
  int nextTag;
  struct Op { int kind, x, y; };
  std::vector<Op> ops;
  bool opsValid;
  const char* ptag;  // property whose oracle is being evaluated: self-referential operations belong to C04
  enum { INS, HINS, REMK, REMI, REMF, REMB, CLEAR, COPY, ASSIGN, SELFASSIGN, BULK, BULKSELF, INSOWN, HINSOWN };

  H(const Cfg& c) : cfg(c), a(0), nextTag(100), opsValid(false), ptag("C01")
  {
    vf::reg().reset();
    vf::ledger().live_blocks = 0; vf::ledger().live_bytes = 0;
    LIB(a = new C());
    faults();
    if(cfg.fib > 0)
    {
      std::vector<int> keys = fibLevelOrder(cfg.fib, cfg.mirror);
      for(size_t i = 0; i < keys.size(); ++i)
      {
        int tag = nextTag++;
        C::Iterator it;
        { Tracked k(keys[i]), v(tag); LIB(it = a->insert(k, v)); }
        checkInserted("insert", it, keys[i], tag, false);
      }
      verify("initial Fibonacci tree");
    }
  }
  ~H() {}

  // ------------------------------------------------------------ alphabet
  void buildOps()
  {
    ops.clear();
    int n = (int)ref.size();
    bool room = n < cfg.maxSize;
    if(cfg.fib > 0)
    { // sparse-tree configuration: removals (and re-insertions) only
      for(int k = 0; k < cfg.K; ++k) if(has(k)) add(REMK, k);
      for(int k = 0; k < cfg.K; ++k) if(!has(k)) add(INS, k);
      opsValid = true;
      return;
    }
    for(int k = 0; k < cfg.K; ++k)
      if(room || (!MULTI && has(k))) add(INS, k);
    for(int p = 0; p <= n; ++p)
      for(int k = 0; k < cfg.K; ++k)
        if(room || (!MULTI && has(k))) add(HINS, p, k);
    for(int k = 0; k < cfg.K; ++k)
      if(has(k)) add(REMK, k);
    add(REMK, cfg.K); // absent key
    for(int p = 0; p < n; ++p) add(REMI, p);
    if(n) { add(REMF); add(REMB); }
    add(CLEAR);
    add(COPY); if(cfg.hasCopy) add(ASSIGN);
#ifndef VF_MULTI
    for(int j = 0; j < 4; ++j) add(BULK, j);
#endif
    if(cfg.selfOps)
    {
      if(cfg.hasCopy) add(SELFASSIGN);
#ifndef VF_MULTI
      add(BULKSELF);
#endif
      for(int p = 0; p < n; ++p) if(!MULTI || room) add(INSOWN, p);
      for(int p = 0; p < n; ++p) if(!MULTI || room) add(HINSOWN, p);
    }
    opsValid = true;
  }
  void add(int kind, int x = 0, int y = 0) { Op o = {kind, x, y}; ops.push_back(o); }
  bool has(int k) const { for(size_t i = 0; i < ref.size(); ++i) if(ref[i].key == k) return true; return false; }
  int nops() { if(!opsValid) buildOps(); return (int)ops.size(); }
  std::string opname(int i)
  {
    if(!opsValid) buildOps();
    const Op& o = ops[i];
    switch(o.kind)
    {
    case INS: return vf::fmt("insert(%d)", o.x);
    case HINS: return vf::fmt("insertHint(pos=%d/%d,%d)", o.x, (int)ref.size(), o.y);
    case REMK: return vf::fmt("removeKey(%d)", o.x);
    case REMI: return vf::fmt("removeIt(pos=%d)", o.x);
    case REMF: return "removeFront()";
    case REMB: return "removeBack()";
    case CLEAR: return "clear()";
    case COPY: return "copyConstruct()";
    case ASSIGN: return "assignFromCopy()";
    case SELFASSIGN: return "selfAssign()";
    case BULK: return vf::fmt("insertMap(other%d)", o.x);
    case BULKSELF: return "insertMap(self)";
    case INSOWN: return vf::fmt("insertOwnElement(pos=%d)", o.x);
    case HINSOWN: return vf::fmt("insertHintOwnElement(pos=%d)", o.x);
    }
    return "?";
  }

  // ------------------------------------------------------------ helpers
  C::Iterator at(C& c, int p) { C::Iterator it = c.begin(); for(int i = 0; i < p; ++i) ++it; return it; }
  int indexOf(C& c, const C::Iterator& it)
  {
    int i = 0;
    for(C::Iterator j = c.begin(); j != c.end(); ++j, ++i) if(j == it) return i;
    return it == c.end() ? i : -1;
  }
  int lower(int k) const { int i = 0; while(i < (int)ref.size() && ref[i].key < k) ++i; return i; }
  int upper(int k) const { int i = 0; while(i < (int)ref.size() && ref[i].key <= k) ++i; return i; }

  // model insert; returns index. `at` = observed index (hinted multimap) or -1
  int modelInsert(int k, int tag, int at, bool& isNew)
  {
    if(!MULTI)
    {
      int i = lower(k);
      if(i < (int)ref.size() && ref[i].key == k) { ref[i].tag = tag; isNew = false; return i; }
      Ent e = {k, tag, 0, 0};
      ref.insert(ref.begin() + i, e);
      isNew = true;
      return i;
    }
    isNew = true;
    int i = at >= 0 ? at : upper(k);
    Ent e = {k, tag, 0, 0};
    ref.insert(ref.begin() + i, e);
    return i;
  }

  void checkInserted(const char* what, const C::Iterator& it, int k, int tag, bool hinted)
  {
    faults();
    VF_CHECK(it != a->end(), PTAG + ":" CNAME ":insert-returns-end", "%s returned end()", what);
    int rk = it.key().get(), rv = (*it).get();
    VF_CHECK(rk == k && rv == tag, PTAG + ":" CNAME ":insert-returned-iterator", "%s returned iterator to (%d,%d), expected (%d,%d)", what, rk, rv, k, tag);
    int idx = indexOf(*a, it);
    VF_CHECK(idx >= 0, PTAG + ":" CNAME ":insert-returned-iterator", "%s returned an iterator that is not reachable by iteration", what);
    bool isNew;
    int at = -1;
    if(MULTI && hinted)
    {
      int lo = lower(k), hi = upper(k);
      VF_CHECK(idx >= lo && idx <= hi, PTAG + ":" CNAME ":order", "%s placed key %d at index %d outside its equal range [%d,%d]", what, k, idx, lo, hi);
      at = idx;
    }
    int mi = modelInsert(k, tag, at, isNew);
    VF_CHECK(mi == idx, PTAG + ":" CNAME ":insert-position", "%s: element (%d,%d) is at index %d, reference says %d", what, k, tag, idx, mi);
    if(isNew) { ref[mi].kaddr = &it.key(); ref[mi].vaddr = &*it; }
  }

  void doInsertRange(const std::vector<std::pair<int, int> >& kv) // reference semantics of insert(otherMap)
  {
    for(size_t i = 0; i < kv.size(); ++i) { bool n; modelInsert(kv[i].first, kv[i].second, -1, n); }
  }

  void relearnAddresses()
  {
    size_t i = 0;
    for(C::Iterator it = a->begin(); it != a->end() && i < ref.size(); ++it, ++i)
    { ref[i].kaddr = &it.key(); ref[i].vaddr = &*it; }
  }

  // ------------------------------------------------------------ transition
  void apply(int i)
  {
    if(!opsValid) buildOps();
    Op o = ops[i];
    opsValid = false;
    ptag = (o.kind == SELFASSIGN || o.kind == BULKSELF || o.kind == INSOWN || o.kind == HINSOWN) ? "C04" : "C01";
    vf::hit(("opcalls:" + H::kindName(o.kind)).c_str());
    switch(o.kind)
    {
    case INS:
    {
      int tag = nextTag++;
      C::Iterator it;
      { Tracked k(o.x), v(tag); LIB(it = a->insert(k, v)); }
      checkInserted("insert", it, o.x, tag, false);
      break;
    }
    case HINS:
    {
      int tag = nextTag++;
      C::Iterator pos = at(*a, o.x), it;
      { Tracked k(o.y), v(tag); LIB(it = a->insert(pos, k, v)); }
      checkInserted("hinted insert", it, o.y, tag, true);
      break;
    }
    case REMK:
    {
      { Tracked k(o.x); LIB(a->remove(k)); }
      faults();
      if(!MULTI) { int i2 = lower(o.x); if(i2 < (int)ref.size() && ref[i2].key == o.x) ref.erase(ref.begin() + i2); }
      else
      { // MultiMap::remove(key) removes one element with that key (which one is not specified): adopt the observed one
        int lo = lower(o.x), hi = upper(o.x);
        if(lo < hi)
        {
          std::vector<const void*> tags; // identities (addresses) of the remaining elements
          for(C::Iterator it = a->begin(); it != a->end() && tags.size() < 300; ++it) tags.push_back(&*it);
          VF_CHECK((int)tags.size() == (int)ref.size() - 1, PTAG + ":" CNAME ":removeKey", "remove(key %d) changed size from %d to %d", o.x, (int)ref.size(), (int)tags.size());
          int gone = -1;
          for(int j = lo; j < hi; ++j) if(j >= (int)tags.size() || tags[j] != ref[j].vaddr) { gone = j; break; }
          VF_CHECK(gone >= 0, PTAG + ":" CNAME ":removeKey", "remove(key %d) removed no element of that key", o.x);
          ref.erase(ref.begin() + gone);
        }
      }
      break;
    }
    case REMI: case REMF: case REMB:
    {
      int p = o.kind == REMI ? o.x : o.kind == REMF ? 0 : (int)ref.size() - 1;
      C::Iterator it = at(*a, p), succ = it, r;
      ++succ;
      if(o.kind == REMI) LIB(r = a->remove(it));
      else if(o.kind == REMF) LIB(r = a->removeFront());
      else LIB(r = a->removeBack());
      faults();
      ref.erase(ref.begin() + p);
      VF_CHECK(r == succ, PTAG + ":" CNAME ":remove-returned-iterator", "remove at index %d did not return the successor", p);
      break;
    }
    case CLEAR:
      LIB(a->clear());
      faults();
      ref.clear();
      break;
    case COPY:
    {
      std::vector<Ent> orig = ref;
      C* old = a;
      C* n = 0;
      LIB(n = new C(*old));
      faults();
      a = n; relearnAddresses(); verify("copy construction");
      // C04: the copy is independent: mutate the copy, the source must not change
      { Tracked k(cfg.K + 1), v(7); LIB(n->insert(k, v)); }
      if(!ref.empty()) LIB(n->removeFront());
      faults();
      a = old; ref = orig; verify("mutating a copy (source must be unaffected)");
      // drop the mutated copy, continue with a fresh exact copy and destroy the source
      LIB(delete n);
      LIB(n = new C(*old));
      LIB(delete old);
      faults();
      a = n; relearnAddresses();
      break;
    }
#ifndef VF_NOASSIGN
    case ASSIGN:
    {
      C* n = 0;
      LIB(n = new C());
      { Tracked k(cfg.K + 1), v(5); LIB(n->insert(k, v)); }   // non-empty target: old content must be released
      LIB(*n = *a);
      faults();
      LIB(delete a);
      faults();
      a = n; relearnAddresses();
      break;
    }
    case SELFASSIGN:
    {
      C& r = *a;
      LIB(*a = r);
      faults();
      // elements may legitimately be re-created by a self assignment? No: "behaves as if copied first" -> content equal;
      // addresses are not promised to survive an assignment, so they are re-learnt.
      relearnAddresses();
      break;
    }
#endif
#ifndef VF_MULTI
    case BULK:
    {
      static const int sets[4][4] = {{0, 2, 4, -1}, {1, 3, -1, -1}, {-1, -1, -1, -1}, {-2, 0, 0, 0}};
      C other;
      std::vector<std::pair<int, int> > kv;
      if(sets[o.x][0] == -2) { for(int k = 0; k < cfg.K; ++k) kv.push_back(std::make_pair(k, nextTag++)); }
      else for(int j = 0; j < 4 && sets[o.x][j] >= 0; ++j) if(sets[o.x][j] < cfg.K) kv.push_back(std::make_pair(sets[o.x][j], nextTag++));
      for(size_t j = 0; j < kv.size(); ++j) { Tracked k(kv[j].first), v(kv[j].second); LIB(other.insert(k, v)); }
      size_t room = cfg.maxSize - ref.size();
      (void)room;
      LIB(a->insert(other));
      faults();
      doInsertRange(kv);
      relearnNew();
      break;
    }
    case BULKSELF:
    {
      C& r = *a;
      LIB(a->insert(r));
      faults();
      break; // as if copied first: every key exists already with the same value -> unchanged
    }
#endif
    case INSOWN: case HINSOWN:
    {
      C::Iterator it = at(*a, o.x), r;
      const Tracked& k = it.key();
      const Tracked& v = *it;
      int kk = k.get(), vv = v.get();
      if(o.kind == INSOWN) LIB(r = a->insert(k, v));
      else LIB(r = a->insert(it, k, v));
      faults();
      if(!MULTI)
      {
        VF_CHECK(r == it, "C04:" CNAME ":own-element-argument", "insert(own key, own value) did not return the existing element");
      }
      else
        checkInserted("insert(own key, own value)", r, kk, vv, o.kind == HINSOWN);
      break;
    }
    }
    verify(opname_kind(o.kind));
  }
  static std::string kindName(int k)
  {
    static const char* n[] = {"insert", "insertHint", "removeKey", "removeIt", "removeFront", "removeBack", "clear", "copyConstruct", "assignFromCopy", "selfAssign", "insertMap", "insertMapSelf", "insertOwn", "insertHintOwn"};
    return n[k];
  }
  const char* opname_kind(int k) { static std::string s; s = kindName(k); return s.c_str(); }

  void relearnNew()
  { // addresses of elements that have none yet (bulk insert)
    size_t i = 0;
    for(C::Iterator it = a->begin(); it != a->end() && i < ref.size(); ++it, ++i)
      if(!ref[i].kaddr) { ref[i].kaddr = &it.key(); ref[i].vaddr = &*it; }
  }

  // ------------------------------------------------------------ oracle
  void verify(const char* after)
  {
    faults();
    int n = (int)ref.size();
    VF_CHECK((int)a->size() == n, PTAG + ":" CNAME ":size", "after %s: size() = %d, reference %d", after, (int)a->size(), n);
    VF_CHECK(a->isEmpty() == (n == 0), PTAG + ":" CNAME ":isEmpty", "after %s: isEmpty() = %d with %d elements", after, (int)a->isEmpty(), n);
    // forward
    int i = 0;
    int prevKey = -1000;
    for(C::Iterator it = a->begin(); it != a->end(); ++it, ++i)
    {
      VF_CHECK(i < n, PTAG + ":" CNAME ":iteration", "after %s: forward iteration yields more than %d elements", after, n);
      int k = it.key().get(), v = (*it).get();
      VF_CHECK(k >= prevKey, PTAG + ":" CNAME ":order", "after %s: keys not ascending at index %d (%d after %d)", after, i, k, prevKey);
      prevKey = k;
      VF_CHECK(k == ref[i].key && v == ref[i].tag, PTAG + ":" CNAME ":contents", "after %s: element %d is (%d,%d), reference (%d,%d)", after, i, k, v, ref[i].key, ref[i].tag);
      VF_CHECK(ref[i].kaddr == (const void*)&it.key() && ref[i].vaddr == (const void*)&*it, "C05:" CNAME ":element-moved",
        "after %s: element (%d,%d) moved from %p to %p", after, k, v, ref[i].vaddr, (const void*)&*it);
      if(i > 200) break;
    }
    VF_CHECK(i == n, PTAG + ":" CNAME ":iteration", "after %s: forward iteration yields %d elements, reference %d", after, i, n);
    // backward
    i = n;
    if(n)
    {
      C::Iterator it = a->end();
      do
      {
        --it; --i;
        VF_CHECK(i >= 0, PTAG + ":" CNAME ":iteration", "after %s: backward iteration runs past the first element", after);
        int k = it.key().get(), v = (*it).get();
        VF_CHECK(k == ref[i].key && v == ref[i].tag, PTAG + ":" CNAME ":contents-backward", "after %s: backward element %d is (%d,%d), reference (%d,%d)", after, i, k, v, ref[i].key, ref[i].tag);
      } while(it != a->begin() && i > -3);
      VF_CHECK(i == 0, PTAG + ":" CNAME ":iteration", "after %s: backward iteration stops at index %d", after, i);
      VF_CHECK(a->front().get() == ref[0].tag, PTAG + ":" CNAME ":front", "after %s: front() = %d, reference %d", after, a->front().get(), ref[0].tag);
      VF_CHECK(a->back().get() == ref[n - 1].tag, PTAG + ":" CNAME ":back", "after %s: back() = %d, reference %d", after, a->back().get(), ref[n - 1].tag);
    }
    else
      VF_CHECK(a->begin() == a->end(), PTAG + ":" CNAME ":iteration", "after %s: begin() != end() in an empty container", after);
    // lookups and cost bound
    int bound = 2 * (int)floor(1.4405 * log2((double)n + 2.0));
    for(int k = -1; k <= cfg.K + 1; ++k)
    {
      Tracked key(k);
      long long c0 = vf::reg().cmps;
      C::Iterator it = a->find(key);
      long long cost = vf::reg().cmps - c0;
      if(cost > vf::counters()["max:find_comparisons"]) vf::counters()["max:find_comparisons"] = cost;
      int lo = lower(k), hi = upper(k);
      if(lo == hi)
        VF_CHECK(it == a->end(), PTAG + ":" CNAME ":find", "after %s: find(%d) found something although the key is absent", after, k);
      else
      {
        VF_CHECK(it != a->end(), PTAG + ":" CNAME ":find", "after %s: find(%d) = end() although the key is present", after, k);
        if(it == a->end()) continue;     // only reached when the failure above belongs to another check's property (deferred)
        VF_CHECK(it.key().get() == k, PTAG + ":" CNAME ":find", "after %s: find(%d) designates key %d", after, k, it.key().get());
        bool okv = false;
        for(int j = lo; j < hi; ++j) if(ref[j].vaddr == (const void*)&*it && ref[j].tag == (*it).get()) okv = true;
        VF_CHECK(okv, PTAG + ":" CNAME ":find", "after %s: find(%d) designates a value that is not an element with that key", after, k);
      }
      VF_CHECK(a->contains(key) == (lo != hi), PTAG + ":" CNAME ":contains", "after %s: contains(%d) = %d", after, k, (int)a->contains(key));
      VF_CHECK(cost <= bound, PTAG + ":" CNAME ":lookup-cost", "after %s: find(%d) among %d entries needed %lld comparisons, bound %d", after, k, n, cost, bound);
#ifdef VF_MULTI
      usize cnt = a->count(key);
      VF_CHECK((int)cnt == hi - lo, PTAG + ":" CNAME ":count", "after %s: count(%d) = %d, reference %d", after, k, (int)cnt, hi - lo);
#endif
    }
    faults();
    if(n == 2 || n == 4 || n == 7 || n == 8 || n == 9 || n == 12) vf::hit("verify_at_tight_bound_sizes");
  }

  // ------------------------------------------------------------ canonical state
#ifdef VF_INTERNALS
  template<class Item> void pre(Item* it, std::string& s, Item* parent = 0, int depth = 0)
  {
    if(!it) { s += '.'; return; }
    if(depth > 64) { s += "(CYCLE)"; return; }
    char b[48];
    snprintf(b, sizeof(b), "(%d h%d s%d%s", it->key.v, (int)it->height, (int)it->slope, it->parent == parent ? "" : " parent!");   // a stale parent link decides a later removal
    s += b;
    pre(it->left, s, it, depth + 1); pre(it->right, s, it, depth + 1);
    s += ')';
  }
  template<class Item> void inorder(Item* it, std::vector<Item*>& out, int depth = 0)
  {
    if(!it || depth > 64) return;
    inorder(it->left, out, depth + 1); out.push_back(it); inorder(it->right, out, depth + 1);
  }
#endif
  std::string canon()
  {
    std::string s = CNAME ":";
#ifdef VF_INTERNALS
    pre(a->root, s);
    // hidden bookkeeping that the tree alone determines in a correct implementation - and that a wrong one leaves stale:
    // sentinel links, begin, size, spare-slot pool
    {
      int f = 0, b = 0;
      for(auto* i = a->freeItem; i && f < 500; i = i->prev) ++f;
      for(auto* k = a->blocks; k && b < 500; k = k->next) ++b;
      bool prevLive = false, beginLive = false;
      for(auto* i = a->root; i;) { if(i == a->endItem.prev) prevLive = true; i = i->right; }      // the back item is the rightmost node
      for(auto* i = a->root; i;) { if(i == a->_begin.item) beginLive = true; i = i->left; }      // the front item is the leftmost node
      // the doubly linked list through the items must be the in-order sequence of the tree
      {
        std::vector<decltype(a->root)> seq; inorder(a->root, seq);
        bool ok = true; size_t i = 0;
        for(auto* it = a->_begin.item; it && it != &a->endItem && i <= seq.size(); it = it->next, ++i)
          if(i >= seq.size() || seq[i] != it || it->prev != (i ? seq[i - 1] : (decltype(a->root))0)) { ok = false; break; }
        if(i != seq.size()) ok = false;
        if(!ok) s += "|list!";
      }
      s += vf::fmt("|n%d f%d b%d end.prev=%s begin=%s", (int)a->_size, f, b,
                   !a->endItem.prev ? "null" : prevLive ? "rightmost-path" : "STALE", a->_begin.item == &a->endItem ? "end" : beginLive ? "leftmost-path" : "STALE");
    }
#else
    for(size_t i = 0; i < ref.size(); ++i) s += vf::fmt("%d,", ref[i].key);
#endif
    return s;
  }

  void finish()
  {
    LIB(delete a);
    a = 0;
    faults();
    vf::Registry& r = vf::reg();
    VF_CHECK(r.live.empty(), "C04:" CNAME ":element-leak", "%d element(s)/key(s) still alive after the container was destroyed", (int)r.live.size());
    VF_CHECK(vf::ledger().live_blocks == 0, "C04:" CNAME ":memory-leak", "%lld heap block(s) (%lld bytes) still allocated after the container was destroyed",
      vf::ledger().live_blocks, vf::ledger().live_bytes);
    VF_CHECK(r.ctor == r.dtor, "C04:" CNAME ":ctor-dtor-balance", "%lld constructions vs %lld destructions", r.ctor, r.dtor);
  }
};

int main(int argc, char** argv)
{
  vf::std_init(argc, argv);
  Cfg c;
  c.K = (int)vf::argll(argc, argv, "--keys", 5);
  c.maxSize = (int)vf::argll(argc, argv, "--maxsize", MULTI ? 5 : c.K);
  c.selfOps = vf::flag(argc, argv, "--selfops");
  c.fib = (int)vf::argll(argc, argv, "--fib", 0);
  c.mirror = vf::flag(argc, argv, "--mirror");
  if(c.fib > 0) { c.K = fibSize(c.fib); c.maxSize = c.K; }
#ifdef VF_NOASSIGN
  c.hasCopy = false;
#else
  c.hasCopy = true;
#endif
  std::string label = vf::fmt(CNAME " K=%d max=%d%s%s", c.K, c.maxSize, c.selfOps ? " selfops" : "", c.hasCopy ? "" : " noassign");
  if(c.fib > 0) label = vf::fmt(CNAME " from minimal AVL tree of height %d (%d keys)%s, removals/re-insertions", c.fib, c.K, c.mirror ? " mirrored" : "");
  return vf::bfs_main<H, Cfg>(argc, argv, c, label, 64);
}
