// Sequential handle histories for C09 (and the "copies of element values" clause of C16):
//   -DVF_PTR : RefCount::Ptr handles over reference counted objects
//   -DVF_XML : Xml::Variant handles (null / text / element values)
#define VF_LEDGER
#include <nstd/RefCount.hpp>
#include <nstd/Document/Xml.hpp>
#include "engine/histbfs.hpp"
#include <algorithm>
#include <string>
#include <set>
#include <map>

#define LIB(...) do { vf::Track t_; __VA_ARGS__; } while(0)

struct Cfg { int maxNodes; };

#ifdef VF_PTR
// ------------------------------------------------------------------------------------------------ RefCount::Ptr
static std::set<int>* g_alive;
static std::string* g_fault;
struct Obj : public RefCount::Object
{
  int id;
  RefCount::Ptr<Obj> next;      // objects may hold handles themselves (lists, trees): releasing one can release others
  Obj(int i) : id(i) { vf::Untrack u; g_alive->insert(id); }
  ~Obj() { vf::Untrack u; if(!g_alive->count(id)) { if(g_fault->empty()) *g_fault = vf::fmt("object %d destroyed twice", id); } g_alive->erase(id); id = -777; }
};
struct Derived : public Obj { int extra; Derived(int i) : Obj(i), extra(i * 2) {} };
typedef RefCount::Ptr<Obj> P;
typedef RefCount::Ptr<Derived> PD;

struct H
{
  Cfg cfg;
  P* h[3]; PD* hd;
  int m[3], md;          // designated object id, 0 = null
  int nextId;
  std::map<int, int> nx;  // object id -> id designated by its 'next' handle (0 / absent = null)
  std::set<int> alive; std::string fault;
  struct Op { int kind, x, y; };
  std::vector<Op> ops; bool opsValid;
  enum { ASSIGNNEW, ASSIGNNEWDERIVED, ASSIGN, ASSIGNNULL, ASSIGNRAW, COPYCTOR, CONVCOPY, CONVASSIGN, SWAP, RECREATE, DROPDERIVED, ROT,
         LINK, UNLINK, ADVANCE, ADVANCERAW, ADVANCECOPY, RAWCTOR };
  int nextOf(int id) { std::map<int, int>::iterator i = nx.find(id); return i == nx.end() ? 0 : i->second; }
  bool reaches(int from, int to) { for(int g = 0; from && g < 100; ++g, from = nextOf(from)) if(from == to) return true; return false; }
  std::set<int> wanted()
  {
    std::set<int> want;
    int roots[4] = {m[0], m[1], m[2], md};
    for(int i = 0; i < 4; ++i) for(int id = roots[i], g = 0; id && g < 100 && !want.count(id); ++g, id = nextOf(id)) want.insert(id);
    return want;
  }
  void prune() { std::set<int> w = wanted(); for(std::map<int, int>::iterator i = nx.begin(); i != nx.end();) if(!w.count(i->first)) nx.erase(i++); else ++i; }

  H(const Cfg& c) : cfg(c), md(0), nextId(1), opsValid(false)
  {
    g_alive = &alive; g_fault = &fault;
    vf::ledger().live_blocks = 0; vf::ledger().live_bytes = 0;
    for(int i = 0; i < 3; ++i) { LIB(h[i] = new P()); m[i] = 0; }
    LIB(hd = new PD());
  }
  void add(int k, int x = 0, int y = 0) { Op o = {k, x, y}; ops.push_back(o); }
  void buildOps()
  {
    ops.clear();
    if((int)wanted().size() < cfg.maxNodes) { add(ASSIGNNEW); add(ASSIGNNEWDERIVED); }
    if(m[0])
    {
      for(int j = 0; j < 3; ++j) if(m[j] && !reaches(m[j], m[0])) add(LINK, j);     // no cycles: they are leaks by design of reference counting
      if(nextOf(m[0])) { add(UNLINK); add(ADVANCERAW); }
      add(ADVANCE); add(ADVANCECOPY);
    }
    for(int j = 0; j < 3; ++j) add(ASSIGN, j);
    add(ASSIGNNULL);
    for(int j = 0; j < 3; ++j) if(m[j]) add(ASSIGNRAW, j);
    for(int j = 1; j < 3; ++j) add(COPYCTOR, j);
    for(int j = 0; j < 3; ++j) if(m[j]) add(RAWCTOR, j);     // a handle constructed from the raw pointer of an object that already has handles
    add(CONVCOPY); add(CONVASSIGN);
    for(int j = 0; j < 3; ++j) { add(SWAP, j); if(j) add(SWAP, j, 1); }   // either handle as the receiver
    add(RECREATE); add(DROPDERIVED);
    add(ROT, 1); add(ROT, 2);
    opsValid = true;
  }
  int nops() { if(!opsValid) buildOps(); return (int)ops.size(); }
  static const char* kindName(int k)
  {
    static const char* n[] = {"h0=new Obj", "hd=new Derived;h0=hd", "h0=h", "h0=null", "h0=rawPointerOf h", "h0=Ptr(h)", "h0=Ptr<Obj>(hd)", "h0=hd", "h0.swap(h)", "destroy+recreate h0", "hd=null", "rotate",
      "h0->next=h", "h0->next=null", "h0=h0->next", "h0=rawPointerOf h0->next", "h0=Ptr(h0->next)", "h0=Ptr(rawPointerOf h)"};
    return n[k];
  }
  std::string opname(int i) { if(!opsValid) buildOps(); return vf::fmt("%s%d {h0->%d h1->%d h2->%d hd->%d}", (std::string(kindName(ops[i].kind)) + (ops[i].y ? "(reversed receiver)" : "")).c_str(), ops[i].x, m[0], m[1], m[2], md); }

  void apply(int i)
  {
    if(!opsValid) buildOps();
    Op o = ops[i]; opsValid = false;
    vf::hit((std::string("opcalls:") + kindName(o.kind)).c_str());
    P& a = *h[0];
    switch(o.kind)
    {
    case ASSIGNNEW: { int id = nextId++; Obj* ob = 0; LIB(ob = new Obj(id)); LIB(a = ob); m[0] = id; break; }
    case ASSIGNNEWDERIVED: { int id = nextId++; Derived* ob = 0; LIB(ob = new Derived(id)); LIB(*hd = ob); md = id; LIB(a = *hd); m[0] = id; break; }
    case ASSIGN: { P& b = *h[o.x]; LIB(a = b); m[0] = m[o.x]; break; }
    case ASSIGNNULL: LIB(a = (Obj*)0); m[0] = 0; break;
    case ASSIGNRAW: { Obj* raw = h[o.x]->operator->(); LIB(a = raw); m[0] = m[o.x]; break; }
    case COPYCTOR: { P* n = 0; LIB(n = new P(*h[o.x])); LIB(delete h[0]); h[0] = n; m[0] = m[o.x]; break; }
    case CONVCOPY: { P* n = 0; LIB(n = new P(*hd)); LIB(delete h[0]); h[0] = n; m[0] = md; break; }
    case CONVASSIGN: LIB(a = *hd); m[0] = md; break;
    case SWAP: { P& b = *h[o.x]; if(o.y) LIB(b.swap(a)); else LIB(a.swap(b)); std::swap(m[0], m[o.x]); break; }
    case RECREATE: LIB(delete h[0]); LIB(h[0] = new P()); m[0] = 0; break;
    case DROPDERIVED: LIB(*hd = (Derived*)0); md = 0; break;
    case ROT: std::swap(h[0], h[o.x]); std::swap(m[0], m[o.x]); break;
    case LINK: { P& b = *h[o.x]; LIB(a->next = b); nx[m[0]] = m[o.x]; break; }
    case UNLINK: LIB(a->next = (Obj*)0); nx.erase(m[0]); break;
    case ADVANCE: { int t = nextOf(m[0]); LIB(a = a->next); m[0] = t; break; }                       // the argument lives inside the object that may be released
    case ADVANCERAW: { int t = nextOf(m[0]); Obj* raw = a->next.operator->(); LIB(a = raw); m[0] = t; break; }
    case RAWCTOR: { Obj* raw = h[o.x]->operator->(); int t = m[o.x]; P* n = 0; LIB(n = new P(raw)); LIB(delete h[0]); h[0] = n; m[0] = t; break; }
    case ADVANCECOPY: { int t = nextOf(m[0]); P* n = 0; LIB(n = new P(a->next)); LIB(delete h[0]); h[0] = n; m[0] = t; break; }
    }
    prune();
    verify(kindName(o.kind));
  }
  void verify(const char* after)
  {
    VF_CHECK(fault.empty(), "C09:Ptr:double-destruction", "after %s: %s", after, fault.c_str());
    std::set<int> want = wanted();
    for(std::set<int>::iterator it = want.begin(); it != want.end(); ++it)
      VF_CHECK(alive.count(*it), "C09:Ptr:released-while-referenced", "after %s: object %d was destroyed although a handle still designates it", after, *it);
    for(std::set<int>::iterator it = alive.begin(); it != alive.end(); ++it)
      VF_CHECK(want.count(*it), "C09:Ptr:not-released", "after %s: object %d is still alive although no handle designates it", after, *it);
    for(int i = 0; i < 3; ++i)
    {
      VF_CHECK((bool)*h[i] == (m[i] != 0), "C09:Ptr:null-state", "after %s: handle %d null state wrong", after, i);
      if(m[i]) VF_CHECK((*h[i])->id == m[i], "C09:Ptr:designates", "after %s: handle %d designates object %d, reference %d", after, i, (*h[i])->id, m[i]);
      if(m[i] && alive.count(m[i]))
      {
        int t = nextOf(m[i]);
        VF_CHECK((bool)(*h[i])->next == (t != 0) && (!t || (*h[i])->next->id == t), "C09:Ptr:designates", "after %s: the next handle of object %d does not designate object %d", after, m[i], t);
      }
#ifdef VF_INTERNALS
      if(m[i])
      {
        int cnt = 0; for(int j = 0; j < 3; ++j) if(m[j] == m[i]) ++cnt; if(md == m[i]) ++cnt;
        for(std::map<int, int>::iterator k = nx.begin(); k != nx.end(); ++k) if(k->second == m[i]) ++cnt;
        VF_CHECK((int)h[i]->refObj->ref == cnt, "C09:Ptr:refcount", "after %s: object %d has reference count %d but %d handle(s)", after, m[i], (int)h[i]->refObj->ref, cnt);
      }
#endif
    }
    if(md) VF_CHECK((*hd)->extra == md * 2, "C09:Ptr:designates", "after %s: derived handle designates the wrong object", after);
    for(int i = 0; i < 3; ++i) for(int j = 0; j < 3; ++j) VF_CHECK((*h[i] == *h[j]) == (m[i] == m[j]), "C09:Ptr:equality", "after %s: h%d == h%d wrong", after, i, j);
  }
  std::string canon()
  {
    std::map<int, int> rel; std::string s = "P";
    int ids[4] = {m[0], m[1], m[2], md};
    for(int i = 0; i < 4; ++i)
    { // handle target, then the chain hanging off it (objects are named in order of first appearance)
      s += '|';
      for(int id = ids[i], g = 0; g < 100; ++g, id = nextOf(id))
      {
        if(!id) { s += "0"; break; }
        bool known = rel.count(id) != 0;
        if(!known) { int r = (int)rel.size() + 1; rel[id] = r; }
        s += vf::fmt("%d>", rel[id]);
        if(known) break;
      }
    }
    return s;
  }
  void finish()
  {
    for(int i = 0; i < 3; ++i) { LIB(delete h[i]); h[i] = 0; }
    LIB(delete hd); hd = 0;
    VF_CHECK(fault.empty(), "C09:Ptr:double-destruction", "%s", fault.c_str());
    VF_CHECK(alive.empty(), "C09:Ptr:not-released", "%d object(s) alive after all handles were destroyed", (int)alive.size());
    VF_CHECK(vf::ledger().live_blocks == 0, "C09:Ptr:block-leak", "%lld heap block(s) still allocated after all handles were destroyed", vf::ledger().live_blocks);
  }
};
#define LABEL "RefCount::Ptr"
#else
// ------------------------------------------------------------------------------------------------ Xml::Variant
struct MV
{
  int kind; // 0 null, 1 text, 2 element
  std::string text, name;
  std::vector<MV> kids;
  MV() : kind(0) {}
  bool operator==(const MV& o) const { return kind == o.kind && text == o.text && name == o.name && kids == o.kids; }
  int nodes() const { int n = 1; for(size_t i = 0; i < kids.size(); ++i) n += kids[i].nodes(); return n; }
  std::string str() const
  {
    if(kind == 0) return "null"; if(kind == 1) return "'" + text + "'";
    std::string r = "<" + name; for(size_t i = 0; i < kids.size(); ++i) r += " " + kids[i].str(); return r + ">";
  }
};
typedef Xml::Variant XV;
static std::string sstr(const String& s) { return std::string((const char*)s, s.length()); }

struct H
{
  Cfg cfg;
  XV* v[3]; MV m[3];
  struct Op { int kind, x; };
  std::vector<Op> ops; bool opsValid;
  enum { CLEAR, SETTEXT, SETELEM, ASSIGN, COPYCTOR, MUTNAME, MUTADDCHILD, MUTONLY, CHILDMUT, ROT, ASSIGNCHILD };

  H(const Cfg& c) : cfg(c), opsValid(false)
  {
    vf::ledger().live_blocks = 0; vf::ledger().live_bytes = 0;
    for(int i = 0; i < 3; ++i) LIB(v[i] = new XV());
  }
  void add(int k, int x = 0) { Op o = {k, x}; ops.push_back(o); }
  static MV asElem(const MV& x) { if(x.kind == 2) return x; MV e; e.kind = 2; return e; }
  void buildOps()
  {
    ops.clear();
    add(CLEAR); add(SETTEXT, 0); add(SETTEXT, 1); add(SETELEM);
    for(int j = 0; j < 3; ++j) add(ASSIGN, j);
    for(int j = 1; j < 3; ++j) add(COPYCTOR, j);
    add(MUTNAME); add(MUTONLY);
    for(int j = 1; j < 3; ++j) { MV e = asElem(m[0]); e.kids.push_back(m[j]); if(e.nodes() <= cfg.maxNodes) add(MUTADDCHILD, j); }
    if(m[0].kind == 2 && !m[0].kids.empty() && m[0].kids[0].kind == 2) add(CHILDMUT);
    if(m[0].kind == 2 && !m[0].kids.empty()) add(ASSIGNCHILD);
    add(ROT, 1); add(ROT, 2);
    opsValid = true;
  }
  int nops() { if(!opsValid) buildOps(); return (int)ops.size(); }
  static const char* kindName(int k)
  {
    static const char* n[] = {"clear", "assignText", "assignElement", "assignFrom", "copyConstructFrom", "toElement().type=", "toElement().content.append", "toElement()", "toElement().content.front().toElement().type=", "rotate", "assignFromOwnFirstChild"};
    return n[k];
  }
  std::string opname(int i) { if(!opsValid) buildOps(); return vf::fmt("x0.%s(%d) {x0=%s x1=%s x2=%s}", kindName(ops[i].kind), ops[i].x, m[0].str().c_str(), m[1].str().c_str(), m[2].str().c_str()); }

  void apply(int i)
  {
    if(!opsValid) buildOps();
    Op o = ops[i]; opsValid = false;
    vf::hit((std::string("opcalls:") + kindName(o.kind)).c_str());
    XV& a = *v[0];
    MV& ma = m[0];
    switch(o.kind)
    {
    case CLEAR: LIB(a.clear()); ma = MV(); break;
    case SETTEXT: { const char* t = o.x ? "u" : "t"; { vf::Track t_; a = String(t, 1); } ma = MV(); ma.kind = 1; ma.text = t; break; }
    case SETELEM: { { vf::Track t_; Xml::Element e; e.line = e.column = 0; e.type = String("e"); a = XV(e); } ma = MV(); ma.kind = 2; ma.name = "e"; break; }
    case ASSIGN: { XV& b = *v[o.x]; LIB(a = b); ma = m[o.x]; break; }
    case COPYCTOR: { XV* n = 0; LIB(n = new XV(*v[o.x])); LIB(delete v[0]); v[0] = n; ma = m[o.x]; break; }
    case MUTNAME: { { vf::Track t_; a.toElement().type = String("n"); } ma = asElem(ma); ma.name = "n"; break; }
    case MUTONLY: LIB(a.toElement()); ma = asElem(ma); break;
    case MUTADDCHILD: { MV arg = m[o.x]; XV& b = *v[o.x]; LIB(a.toElement().content.append(b)); ma = asElem(ma); ma.kids.push_back(arg); break; }
    case CHILDMUT: { { vf::Track t_; a.toElement().content.front().toElement().type = String("c"); } ma.kids[0].name = "c"; break; }
    case ROT: std::swap(v[0], v[o.x]); std::swap(m[0], m[o.x]); break;
    case ASSIGNCHILD:
    { // the source lives inside the value that the assignment releases (unless it is shared)
      const XV& child = ((const XV&)a).toElement().content.front();
      MV keep = ma.kids[0];
      LIB(a = child);
      ma = keep;
      break;
    }
    }
    verify(kindName(o.kind));
  }
  void cmp(const XV& x, const MV& mm, const std::string& path, const char* after)
  {
    int kind = x.isNull() ? 0 : x.isText() ? 1 : x.isElement() ? 2 : -1;
    VF_CHECK(kind == mm.kind, "C16:XmlVariant:type", "after %s: %s has kind %d, reference %s", after, path.c_str(), kind, mm.str().c_str());
    if(kind == 1) { std::string t; { vf::Track t_; String s = x.toString(); vf::Untrack u; t = sstr(s); } VF_CHECK(t == mm.text, "C16:XmlVariant:text", "after %s: %s text '%s', reference '%s'", after, path.c_str(), t.c_str(), mm.text.c_str()); }
    if(kind == 2)
    {
      const Xml::Element& e = x.toElement();
      VF_CHECK(sstr(e.type) == mm.name, "C16:XmlVariant:element-name", "after %s: %s element name '%s', reference '%s'", after, path.c_str(), sstr(e.type).c_str(), mm.name.c_str());
      VF_CHECK(e.content.size() == mm.kids.size(), "C16:XmlVariant:content", "after %s: %s has %d content nodes, reference %d", after, path.c_str(), (int)e.content.size(), (int)mm.kids.size());
      size_t k = 0;
      for(List<XV>::Iterator it = e.content.begin(); it != e.content.end() && k < mm.kids.size(); ++it, ++k) cmp(*it, mm.kids[k], path + vf::fmt("/%d", (int)k), after);
    }
  }
#ifdef VF_INTERNALS
  void countHandles(const XV& x, std::map<const void*, int>& cnt, std::map<const void*, int>& refs)
  {
    if(!x.data->ref) return;
    ++cnt[x.data]; refs[x.data] = (int)x.data->ref;
    if(cnt[x.data] > 1) return;
    if(x.isElement()) { const Xml::Element& e = x.toElement(); for(List<XV>::Iterator it = e.content.begin(); it != e.content.end(); ++it) countHandles(*it, cnt, refs); }
  }
#endif
  void verify(const char* after)
  {
    for(int i = 1; i < 3; ++i)
    {
      struct F { H* h; int i; const char* after; void operator()() { h->cmp(*h->v[i], h->m[i], vf::fmt("x%d", i), after); } } f = {this, i, after};
      VF_CHECK(vf::holds(f), "C09:XmlVariant:modified-in-place", "after %s: x%d changed although the operation was applied to x0 (value modified while another handle refers to it)", after, i);
    }
    for(int i = 0; i < 3; ++i) cmp(*v[i], m[i], vf::fmt("x%d", i), after);
#ifdef VF_INTERNALS
    std::map<const void*, int> cnt, refs;
    for(int i = 0; i < 3; ++i) countHandles(*v[i], cnt, refs);
    for(std::map<const void*, int>::iterator it = cnt.begin(); it != cnt.end(); ++it)
      VF_CHECK(refs[it->first] == it->second, "C09:XmlVariant:refcount", "after %s: a shared value has reference count %d but %d handle(s) designate it", after, refs[it->first], it->second);
#endif
  }
  std::string canon()
  {
    std::string c = "X";
    for(int i = 0; i < 3; ++i)
    {
      c += "|" + m[i].str();
#ifdef VF_INTERNALS
      if(v[i]->data->ref) { int g = i; for(int j = 0; j < i; ++j) if(v[j]->data == v[i]->data) { g = j; break; } c += vf::fmt("#g%d r%d", g, (int)v[i]->data->ref); }
#endif
    }
    return c;
  }
  void finish()
  {
    for(int i = 0; i < 3; ++i) { LIB(delete v[i]); v[i] = 0; }
    VF_CHECK(vf::ledger().live_blocks == 0, "C09:XmlVariant:block-leak", "%lld heap block(s) still allocated after all values were destroyed", vf::ledger().live_blocks);
  }
};
#define LABEL "Xml::Variant"
#endif

int main(int argc, char** argv)
{
  vf::std_init(argc, argv);
  Cfg c;
  c.maxNodes = (int)vf::argll(argc, argv, "--maxnodes", 4);
  return vf::bfs_main<H, Cfg>(argc, argv, c, vf::fmt(LABEL " handles maxnodes=%d", c.maxNodes), 64);
}
