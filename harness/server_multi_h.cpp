// C13 / C14: two Server clients over socket pairs; registrations change from inside the other client's callbacks while
// events for both are already buffered by the poll. Single-threaded; the application (timer turns), the reactions inside
// callbacks and the operating system's answers to send() are chosen by the explorer.
#define VF_LEDGER
#include <nstd/Socket/Server.hpp>
#include <nstd/Socket/Socket.hpp>
#include "engine/choice.hpp"
#include "engine/enum.hpp"
#include <string>
#include <map>
#include <fcntl.h>
#include <errno.h>
#include <sys/socket.h>
#include <sys/epoll.h>

struct Cfg { int turns; int envBound; int reactBound; int errors; std::string prop; };
static Cfg cfg;
struct World;
static World* W;

struct Cl : public Server::Client::ICallback
{
  World* w; int id;
  Server::Client* client; Socket* peer; int fd;
  std::string accepted, received, peerSent, clientRead;
  size_t handedToOs;
  bool suspended, removed, backlogNonEmpty, notWritable;
  bool failed, closedDelivered;     // the environment answered a send with a hard error: onClosed must follow, exactly once
  int onWriteCount, expectedOnWrite, onReadCount;
  unsigned char nextByte, nextPeerByte;
  Cl() : w(0), id(0), client(0), peer(0), fd(-1), handedToOs(0), suspended(false), removed(false), backlogNonEmpty(false), notWritable(false), failed(false), closedDelivered(false),
         onWriteCount(0), expectedOnWrite(0), onReadCount(0), nextByte(1), nextPeerByte(101) {}
  virtual void onRead();
  virtual void onWrite();
  virtual void onClosed();
};

struct World : public Server::Timer::ICallback
{
  vf::Chooser* ch; Server* server; Cl c[2];
  long long clockMs; int envDev, reactDev, polls, turn;
  bool failed, tracing, stopping; std::string failKey, failMsg, trace;
  std::map<void*, int> ptrFd;   // epoll user pointer -> descriptor (from the intercepted interest-set changes)
  int staleDispatch;
  World() : ch(0), server(0), clockMs(100000), envDev(0), reactDev(0), polls(0), turn(0), failed(false), tracing(false), stopping(false), staleDispatch(0) {}
  void fail(const std::string& k, const std::string& m) { if(!failed) { failed = true; failKey = cfg.prop + ":" + k; failMsg = m; } }
  void note(const std::string& s) { trace += (trace.empty() ? "" : "; ") + s; if(tracing) printf("  %s\n", s.c_str()); }
  int envChoice(int n)
  {
    if(n <= 1 || envDev >= cfg.envBound || stopping) return 0;
    int c = ch->choose(n); if(c) ++envDev; return c;
  }
  void doWrite(Cl& x, int n)
  {
    if(x.removed || x.failed || x.accepted.size() > 30) return;
    std::string d; for(int i = 0; i < n; ++i) d += (char)x.nextByte++;
    vf::Exact e(d.data(), d.size());
    usize postponed = 12345;
    bool ok = x.client->write((const byte*)e.p, d.size(), &postponed);
    vf::hit("writes");
    if(x.failed)
    { // the send of this very call failed: the call reports it, nothing is accepted, onClosed follows
      if(ok) fail("write-true-after-error", vf::fmt("client %d: write() returned true although its send failed", x.id));
      // the caller may give up on the client at once instead of waiting for onClosed ("if(!client.write(..)) server.remove(client)")
      if(!failed && ch->choose(2) == 1) { note(vf::fmt("client %d removed by the caller of the failed write", x.id)); remove(x); }
      return;
    }
    if(!ok) { fail("write-failed", "write() returned false although the environment reported no error"); return; }
    x.accepted += d;
    size_t backlog = x.accepted.size() - x.handedToOs;
    if(postponed != backlog) fail("postponed", vf::fmt("client %d: write(%d) reported %d postponed bytes, accepted minus handed to the OS is %d", x.id, n, (int)postponed, (int)backlog));
    if(x.client->getSendBufferSize() != backlog) fail("send-buffer-size", vf::fmt("client %d: getSendBufferSize() = %d, expected %d", x.id, (int)x.client->getSendBufferSize(), (int)backlog));
    if(backlog > 0 && !x.backlogNonEmpty) { x.backlogNonEmpty = true; ++x.expectedOnWrite; vf::hit("backlog_episodes"); }
  }
  void peerWrite(Cl& x)
  {
    unsigned char b[2] = {x.nextPeerByte, (unsigned char)(x.nextPeerByte + 1)}; x.nextPeerByte += 2;
    if(x.removed) return; // the server's end is closed
    if(::send((int)x.peer->getFileDescriptor(), b, 2, MSG_NOSIGNAL) == 2) x.peerSent.append((char*)b, 2);
  }
  void suspend(Cl& x) { if(x.removed || x.failed) return; x.client->suspend(); x.suspended = true; if(!x.client->isSuspended()) fail("suspend-state", "isSuspended() is false after suspend()"); }
  void resume(Cl& x) { if(x.removed || x.failed) return; x.client->resume(); x.suspended = false; if(x.client->isSuspended()) fail("suspend-state", "isSuspended() is true after resume()"); }
  void remove(Cl& x) { if(x.removed) return; server->remove(*x.client); x.removed = true; x.client = 0; vf::hit("removals"); }

  // application turn at the 1 ms timer
  virtual void onActivated()
  {
    ++turn;
    if(turn > cfg.turns)
    {
      bool drained = true;
      for(int i = 0; i < 2; ++i) if(!c[i].removed && !c[i].failed && c[i].client->getSendBufferSize() != 0) drained = false;
      if(turn > cfg.turns + 12 || drained) { stopping = true; server->interrupt(); }
      return;
    }
    static const char* names[] = {"nothing", "write(3) to both", "both peers write 2", "write(3) to client 0", "peer 1 writes 2", "suspend 1", "resume 1", "remove 1"};
    int a = ch->choose(8);
    vf::hit("app_actions");
    note(vf::fmt("turn %d: %s", turn, names[a]));
    switch(a)
    {
    case 1: doWrite(c[0], 3); doWrite(c[1], 3); break;
    case 2: peerWrite(c[0]); peerWrite(c[1]); break;
    case 3: doWrite(c[0], 3); break;
    case 4: peerWrite(c[1]); break;
    case 5: suspend(c[1]); break;
    case 6: resume(c[1]); break;
    case 7: remove(c[1]); break;
    default: break;
    }
  }
  // what a callback of client x does to the other client
  void react(Cl& x, const char* cb)
  {
    Cl& y = c[1 - x.id];
    if(reactDev >= cfg.reactBound || stopping) return;
    int r = ch->choose(5);
    if(!r) return;
    ++reactDev; vf::hit("reactions");
    static const char* names[] = {"", "suspends", "resumes", "removes", ""};
    if(r == 4)
    { // the callback writes on its own client (a re-entrant write inside onWrite may build the next backlog)
      note(vf::fmt("%s of client %d writes 3 bytes to its own client", cb, x.id));
      doWrite(x, 3);
      return;
    }
    note(vf::fmt("%s of client %d %s client %d", cb, x.id, names[r], y.id));
    if(r == 1) suspend(y); else if(r == 2) resume(y); else remove(y);
  }
  void peersRead()
  {
    char buf[256];
    for(int i = 0; i < 2; ++i)
    {
      Cl& x = c[i];
      for(;;) { ssize_t n = ::recv((int)x.peer->getFileDescriptor(), buf, sizeof(buf), MSG_DONTWAIT); if(n <= 0) break; x.received.append(buf, (size_t)n); }
      if(x.received != x.accepted.substr(0, x.received.size()))
        fail("stream", vf::fmt("peer %d received '", i) + vf::hex(x.received) + "', which is not a prefix of the accepted data '" + vf::hex(x.accepted) + "'");
    }
  }
  void run(vf::Chooser& chooser, bool trc)
  {
    ch = &chooser; tracing = trc; W = this;
    server = new Server();
    // The server keeps failed clients in a small hash set keyed by the client object's address (8 buckets, address >> 3): the second
    // client is taken from as many candidates as it needs to land in the bucket of the first one, so that the two really share a
    // chain whenever both are queued; the other candidates are removed again before anything happens.
    std::vector<std::pair<Server::Client*, Socket*> > spare;
    for(int i = 0; i < 2; ++i)
    {
      c[i].w = this; c[i].id = i; c[i].peer = new Socket();
      c[i].client = server->pair(c[i], *c[i].peer);
      for(int tries = 0; i == 1 && c[i].client && tries < 64 && (((size_t)c[1].client - (size_t)c[0].client) >> 3) % 8 != 0; ++tries)
      {
        spare.push_back(std::make_pair(c[i].client, c[i].peer));
        c[i].peer = new Socket();
        c[i].client = server->pair(c[i], *c[i].peer);
      }
      if(!c[i].client) { fprintf(stderr, "pair failed\n"); _exit(3); }
      c[i].fd = (int)c[i].client->getSocket().getFileDescriptor();
      fcntl((int)c[i].peer->getFileDescriptor(), F_SETFL, O_NONBLOCK);
    }
    if((((size_t)c[1].client - (size_t)c[0].client) >> 3) % 8 == 0) vf::hit("colliding_client_addresses");
    for(size_t i = 0; i < spare.size(); ++i) { server->remove(*spare[i].first); delete spare[i].second; }
    server->time(1, *this);
    server->run();
    peersRead();
    for(int i = 0; i < 2 && !failed; ++i)
    {
      Cl& x = c[i];
      if(x.failed && !x.closedDelivered && !x.removed) fail("close-not-delivered", vf::fmt("a send of client %d failed but onClosed never followed", i));
      if(x.removed || x.failed) continue;
      if(x.handedToOs != x.accepted.size()) fail("not-drained", vf::fmt("client %d: %d of %d accepted bytes were never handed to the OS", i, (int)(x.accepted.size() - x.handedToOs), (int)x.accepted.size()));
      else if(x.received != x.accepted) fail("stream", vf::fmt("peer %d received '", i) + vf::hex(x.received) + "', accepted data is '" + vf::hex(x.accepted) + "'");
      if(x.onWriteCount != x.expectedOnWrite) fail("onWrite-count", vf::fmt("client %d: %d onWrite notifications for %d backlog episodes that drained", i, x.onWriteCount, x.expectedOnWrite));
      if(!x.suspended && x.clientRead != x.peerSent) fail("read-missed", vf::fmt("client %d is not suspended and did not get the data its peer sent", i));
    }
    delete server; server = 0;
    for(int i = 0; i < 2; ++i) { delete c[i].peer; c[i].peer = 0; }
  }
};

void Cl::onRead()
{
  ++onReadCount; vf::hit("onRead");
  if(removed) { w->fail("callback-after-remove", vf::fmt("onRead delivered to client %d after Server::remove returned", id)); return; }
  if(suspended) { w->fail("read-while-suspended", vf::fmt("onRead delivered to client %d, which is suspended (not registered for read events)", id)); return; }
  byte buf[16]; usize n;
  while(client->read(buf, sizeof(buf), n)) clientRead.append((char*)buf, n);
  if(clientRead != peerSent.substr(0, clientRead.size())) w->fail("read-data", "the client read bytes the peer did not send in this order");
  w->react(*this, "onRead");
}
void Cl::onWrite()
{
  ++onWriteCount; vf::hit("onWrite");
  if(removed) { w->fail("callback-after-remove", vf::fmt("onWrite delivered to client %d after Server::remove returned", id)); return; }
  if(failed) w->fail("onWrite-after-error", vf::fmt("client %d: onWrite delivered although its send failed", id));
  if(client->getSendBufferSize() != 0) w->fail("onWrite-early", vf::fmt("client %d: onWrite delivered while %d bytes are still buffered", id, (int)client->getSendBufferSize()));
  if(!backlogNonEmpty) w->fail("onWrite-spurious", vf::fmt("client %d: onWrite delivered although no backlog had built up since the last one", id));
  if(accepted.size() != handedToOs) w->fail("onWrite-early", "onWrite delivered although accepted bytes have not all been handed to the OS");
  backlogNonEmpty = false;
  w->react(*this, "onWrite");
}
void Cl::onClosed()
{
  if(removed) { w->fail("callback-after-remove", vf::fmt("onClosed delivered to client %d after Server::remove returned", id)); return; }
  if(!failed) { w->fail("closed", vf::fmt("onClosed delivered to client %d although neither side closed or failed", id)); return; }
  if(closedDelivered) { w->fail("double-close", vf::fmt("onClosed delivered twice to client %d", id)); return; }
  closedDelivered = true; vf::hit("onClosed");
  w->remove(*this);      // the conventional reaction
}

extern "C" ssize_t vf_send(int fd, const void* buf, size_t n, int flags)
{
  World* w = W;
  Cl* x = 0;
  if(w) for(int i = 0; i < 2; ++i) if(!w->c[i].removed && w->c[i].fd == fd) x = &w->c[i];
  if(!x) return ::send(fd, buf, n, flags);
  // outcomes: full (default), would-block, partial 1, hard error (connection reset)
  size_t opts[4]; int k = 0;
  opts[k++] = n; opts[k++] = 0; if(n > 1) opts[k++] = 1;
  int errIdx = cfg.errors && !x->failed ? k++ : -1;
  int c = w->envChoice(k);
  if(c == errIdx)
  {
    vf::hit("send_calls"); vf::hit("send_errors"); w->note(vf::fmt("send of client %d: connection reset", x->id));
    x->failed = true;
    errno = ECONNRESET; return -1;
  }
  size_t take = opts[c];
  vf::hit("send_calls"); if(c) { vf::hit("send_deviations"); w->note(vf::fmt("send of client %d: %d of %d bytes", x->id, (int)take, (int)n)); }
  if(take < n) x->notWritable = true;
  if(take == 0) { errno = EAGAIN; return -1; }
  ssize_t r = ::send(fd, buf, take, flags);
  if(r > 0) x->handedToOs += (size_t)r;
  return r;
}
extern "C" ssize_t vf_recv(int fd, void* buf, size_t n, int flags) { return ::recv(fd, buf, n, flags); }
extern "C" int vf_clock_gettime(clockid_t, struct timespec* ts)
{
  long long ms = W ? W->clockMs : 100000;
  ts->tv_sec = ms / 1000; ts->tv_nsec = (ms % 1000) * 1000000L;
  return 0;
}
extern "C" int vf_epoll_ctl(int epfd, int op, int fd, struct epoll_event* ev)
{
  World* w = W;
  if(w)
  {
    if(op == EPOLL_CTL_DEL) { for(std::map<void*, int>::iterator i = w->ptrFd.begin(); i != w->ptrFd.end(); ++i) if(i->second == fd) { w->ptrFd.erase(i); break; } }
    else if(ev && ev->data.ptr) w->ptrFd[ev->data.ptr] = fd;
  }
  return ::epoll_ctl(epfd, op, fd, ev);
}
extern "C" int vf_epoll_wait(int epfd, struct epoll_event* events, int maxevents, int timeout)
{
  World* w = W;
  if(!w) return ::epoll_wait(epfd, events, maxevents, timeout);
  if(++w->polls > 400) { w->fail("no-progress", "the event loop polled 400 times without finishing"); w->stopping = true; w->server->interrupt(); }
  w->peersRead();
  int n = ::epoll_wait(epfd, events, maxevents, 0);
  int k = 0;
  for(int i = 0; i < n; ++i)
  {
    // a descriptor that answered would-block / partial is not writable again before time has passed
    std::map<void*, int>::iterator p = w->ptrFd.find(events[i].data.ptr);
    Cl* x = 0;
    if(p != w->ptrFd.end()) for(int j = 0; j < 2; ++j) if(!w->c[j].removed && w->c[j].fd == p->second) x = &w->c[j];
    if(x && x->notWritable && (events[i].events & EPOLLOUT))
    {
      events[i].events &= ~(uint32_t)EPOLLOUT;
      if(!(events[i].events & (EPOLLIN | EPOLLRDHUP | EPOLLHUP | EPOLLERR))) continue;
    }
    events[k++] = events[i];
  }
  n = k;
  if(n >= 2) vf::hit("polls_with_two_ready_clients");
  if(n == 0 && timeout != 0) { w->clockMs += timeout > 0 ? timeout : 1; w->c[0].notWritable = w->c[1].notWritable = false; }
  return n;
}

struct Runner
{
  std::map<std::string, int> keys;
  void operator()(vf::Chooser& ch, bool trace)
  {
    World w;
    w.run(ch, trace);
    if(w.c[0].expectedOnWrite && w.c[1].expectedOnWrite) vf::hit("executions_with_two_backlogs");
    if(w.reactDev) vf::hit("executions_with_reaction");
    if(w.failed)
    {
      vf::hit("violating_executions");
      if(++keys[w.failKey] <= 3) vf::violation(w.failKey, "choices=" + ch.path() + " app: " + w.trace, w.failMsg);
      if(trace) printf("REPRODUCED %s: %s\n", w.failKey.c_str(), w.failMsg.c_str());
    }
    else if(w.reactDev && w.c[0].expectedOnWrite && w.c[1].expectedOnWrite) vf::sample("choices=" + ch.path() + " app: " + w.trace, 3);
    W = 0;
  }
};

int main(int argc, char** argv)
{
  vf::std_init(argc, argv);
  cfg.turns = (int)vf::argll(argc, argv, "--turns", 3);
  cfg.envBound = (int)vf::argll(argc, argv, "--eb", 2);
  cfg.reactBound = (int)vf::argll(argc, argv, "--rb", 1);
  cfg.prop = vf::arg(argc, argv, "--prop", "C14");
  cfg.errors = (int)vf::argll(argc, argv, "--errors", 1);
  Runner r;
  vf::dfs(argc, argv, r, "server-multi");
  return 0;
}
