// C20: Process::Arguments vs glibc getopt_long, command-line splitting and process launch (explorer D).
#define VF_LEDGER
#include <nstd/Process.hpp>
#include <nstd/List.hpp>
#include "engine/enum.hpp"
#include <string>
#include <getopt.h>
#include <sys/wait.h>

static std::string sstr(const String& s) { return std::string((const char*)s, s.length()); }
static String S(const std::string& s) { return String(s.data(), s.size()); }
typedef std::vector<std::pair<int, std::string> > Seq;
static std::string seqstr(const Seq& s) { std::string r; for(size_t i = 0; i < s.size(); ++i) r += vf::fmt("(%d,'", s[i].first) + s[i].second + "')"; return r; }

static const Process::Option OPTS[] = {
  {'a', "aa", Process::optionFlag}, {'b', "bb", Process::optionFlag}, {'o', "out", Process::argumentFlag}, {1000, "opt", Process::argumentFlag | Process::optionalFlag}};

static Seq refGetopt(const std::vector<std::string>& args)
{
  std::vector<char*> argv;
  std::vector<std::string> copy = args;
  for(size_t i = 0; i < copy.size(); ++i) argv.push_back((char*)copy[i].c_str());
  argv.push_back(0);
  static const struct option lo[] = {{"aa", no_argument, 0, 'a'}, {"bb", no_argument, 0, 'b'}, {"out", required_argument, 0, 'o'}, {"opt", optional_argument, 0, 1000}, {0, 0, 0, 0}};
  Seq out;
  optind = 0; opterr = 0;
  for(;;)
  {
    int before = optind ? optind : 1;
    int c = getopt_long((int)copy.size(), &argv[0], "-:abo:", lo, 0);
    if(c == -1) break;
    if(c == 1) out.push_back(std::make_pair(0, std::string(optarg)));
    else if(c == 'a' || c == 'b') out.push_back(std::make_pair(c, std::string()));
    else if(c == 'o' || c == 1000) out.push_back(std::make_pair(c, std::string(optarg ? optarg : "")));
    else if(c == '?' || c == ':')
    {
      std::string el = argv[before < optind ? optind - 1 : before];
      // short option: text is "-" + offending letter; long option: the argv element
      if(el.size() >= 2 && el[0] == '-' && el[1] == '-') out.push_back(std::make_pair(c, c == ':' ? el.substr(0, el.find('=')) : el));
      else out.push_back(std::make_pair(c, std::string("-") + (char)optopt));
    }
  }
  for(int i = optind; i < (int)copy.size(); ++i) out.push_back(std::make_pair(0, copy[i]));
  return out;
}

static void argsCase(const std::vector<std::string>& args, const std::string& cs)
{
  // exactly sized heap copies of every argument string and of the vector itself
  std::vector<vf::Exact*> ex;
  char** argv = (char**)malloc(sizeof(char*) * args.size());
  for(size_t i = 0; i < args.size(); ++i) { ex.push_back(new vf::Exact(args[i], true)); argv[i] = ex[i]->p; }
  Seq got;
  {
    Process::Arguments a((int)args.size(), argv, OPTS);
    int c; String arg;
    int guard = 0;
    while(a.read(c, arg) && guard++ < 100) got.push_back(std::make_pair(c, sstr(arg)));
    if(guard >= 100) got.push_back(std::make_pair(-1, std::string("<more than 100 results>")));
  }
  Seq want = refGetopt(args);
  vf::hit("argument_vectors");
  if(got != want) vf::violation("C20:arguments", cs, "Arguments yields " + seqstr(got) + ", getopt_long yields " + seqstr(want));
  for(size_t i = 0; i < ex.size(); ++i) delete ex[i];
  free(argv);
}

// ---------------------------------------------------------------- launching
static bool readAll(Process& p, uint streams, std::string& out, std::string& err)
{
  char buf[65536];
  while(streams)
  {
    uint s = streams;
    ssize n = p.read(buf, sizeof(buf), s);
    if(n < 0) return false;
    if(n == 0) { p.close(s); streams &= ~s; continue; }
    (s == Process::stdoutStream ? out : err).append(buf, (size_t)n);
  }
  return true;
}
static std::vector<std::string> refSplit(const std::string& line)
{ // words separated by single spaces; double quotes group; \" inside quotes is a quote; segments concatenate
  std::vector<std::string> w; std::string cur; bool any = false;
  for(size_t i = 0; i < line.size();)
  {
    if(line[i] == '"') { any = true; ++i; while(i < line.size() && line[i] != '"') { if(line[i] == '\\' && i + 1 < line.size() && line[i + 1] == '"') { cur += '"'; i += 2; } else cur += line[i++]; } if(i < line.size()) ++i; }
    else if(line[i] == ' ') { w.push_back(cur); cur.clear(); any = false; ++i; }
    else { cur += line[i++]; any = true; }
  }
  if(any || !cur.empty()) w.push_back(cur);
  return w;
}
static bool parseEcho(const std::string& out, std::vector<std::string>& args, std::map<std::string, std::string>& env)
{
  size_t i = 0;
  if(out.compare(0, 5, "ARGC ") != 0) return false;
  int argc = atoi(out.c_str() + 5);
  i = out.find('\n'); if(i == std::string::npos) return false; ++i;
  for(int k = 0; k < argc; ++k)
  {
    if(out.compare(i, 4, "ARG ") != 0) return false;
    size_t colon = out.find(':', i); if(colon == std::string::npos) return false;
    size_t len = (size_t)atol(out.c_str() + i + 4);
    if(colon + 1 + len > out.size()) return false;
    args.push_back(out.substr(colon + 1, len));
    i = colon + 1 + len + 1;
  }
  while(i < out.size())
  {
    size_t e = out.find('\n', i); if(e == std::string::npos) break;
    std::string l = out.substr(i, e - i);
    if(l.compare(0, 4, "ENV ") == 0) { size_t q = l.find('='); env[l.substr(4, q - 4)] = l.substr(q + 1); }
    i = e + 1;
  }
  return true;
}

int main(int argc, char** argv)
{
  vf::std_init(argc, argv);
  vf::Shard sh; sh.init(argc, argv);
  std::string mode = vf::arg(argc, argv, "--mode", "args");
  std::string child = vf::arg(argc, argv, "--child", "");
  int len = (int)vf::argll(argc, argv, "--len", 3);

  if(mode == "args")
  {
    static const char* TOK[] = {"-a", "-ab", "-abo", "-oX", "-o", "-abc", "-", "--", "--aa", "--out=X", "--out", "--opt", "--opt=X", "--zz", "--aa=X", "X", "", "-ba", "--out=", "--o=X", "--=X"};   // "--o" is an ambiguous prefix (out, opt): unknown for getopt_long as well
    vf::Odometer od((int)(sizeof(TOK) / sizeof(*TOK)), len);
    long long n = 0;
    while(od.next())
    {
      if(!sh.take()) continue;
      std::vector<std::string> args; args.push_back("prog");
      std::string cs = "argv [";
      for(int i = 0; i < od.len; ++i) { args.push_back(TOK[od.d[i]]); cs += std::string(i ? " " : "") + "'" + TOK[od.d[i]] + "'"; }
      cs += "]";
      vf::crumb("arguments", sh.token(), cs);
      if((n++ & 0xff) == 0) vf::watchdog_arm(20000);
      argsCase(args, cs);
      if(od.len >= 1) vf::hit("distinct_nontrivial");
      if(od.len == 3 && od.d[0] == 2 && od.d[1] == 15 && od.d[2] == 7) vf::sample(cs + " -> " + seqstr(refGetopt(args)), 3);
    }
  }
  else if(mode == "cmdline")
  {
    static const char* W[] = {"a", "a\\b", "\"\"", "\"a b\"", "\"a\\\"b\"", "a\"b c\"d", "\"a\\b\""};
    vf::Odometer od(7, len, 1);
    while(od.next())
    {
      if(!sh.take()) continue;
      std::string rest;
      for(int i = 0; i < od.len; ++i) rest += std::string(" ") + W[od.d[i]];
      std::string line = child + " echoargs" + rest;
      std::string cs = "command line [<child> echoargs" + rest + "]";
      vf::crumb("cmdline", sh.token(), cs);
      vf::watchdog_arm(15000);
      Process p;
      vf::hit("command_lines"); vf::hit("distinct_nontrivial");
      if(!p.open(S(line), Process::stdoutStream)) { vf::violation("C20:process:open", cs, "open failed"); continue; }
      std::string out, err;
      bool ok = readAll(p, Process::stdoutStream, out, err);
      uint32 code = 99;
      bool j = p.join(code);
      std::vector<std::string> got; std::map<std::string, std::string> env;
      if(!ok || !j || code != 0 || !parseEcho(out, got, env)) { vf::violation("C20:process:launch", cs, vf::fmt("child did not run properly (read %d join %d exit %u)", (int)ok, (int)j, (unsigned)code)); continue; }
      std::vector<std::string> want = refSplit(line);
      if(got != want)
      {
        std::string g, w; for(size_t i = 0; i < got.size(); ++i) g += "[" + got[i] + "]"; for(size_t i = 0; i < want.size(); ++i) w += "[" + want[i] + "]";
        vf::violation("C20:process:command-line", cs, "child received " + g + ", quoting rules give " + w);
      }
      else if(od.len == 2 && od.d[0] == 3) vf::sample(cs, 3);
    }
  }
  else if(mode == "launch")
  {
    // (a) argument vectors x overloads x environments
    static const char* AV[][3] = {{"x", 0, 0}, {"", 0, 0}, {"a b", "", 0}, {"-q", "a\"b", "c\\d"}, {" ", "\t", "'"}};
    for(int v = 0; v < 5; ++v) for(int overload = 0; overload < 2; ++overload) for(int envk = 0; envk < 3; ++envk)
    {
      if(!sh.take()) continue;
      std::vector<std::string> args; args.push_back("argv0"); args.push_back("echoargs");
      for(int i = 0; i < 3 && AV[v][i]; ++i) args.push_back(AV[v][i]);
      Map<String, String> env;
      if(envk >= 1) env.insert(String("VF_A"), String("1 2"));
      if(envk >= 2) env.insert(String("VF_B"), String(""));
      std::string cs = vf::fmt("launch args=%d overload=%s env=%d", v, overload ? "List<String>" : "argc/argv", envk);
      vf::crumb("launch", sh.token(), cs);
      vf::watchdog_arm(15000);
      setenv("VF_A", "inherited", 1); unsetenv("VF_B");
      Process p; bool opened;
      if(overload == 0)
      {
        std::vector<char*> av; for(size_t i = 0; i < args.size(); ++i) av.push_back((char*)args[i].c_str());
        opened = p.open(S(child), (int)av.size(), &av[0], Process::stdoutStream, env);
      }
      else
      {
        List<String> l; for(size_t i = 0; i < args.size(); ++i) l.append(S(args[i]));
        opened = p.open(S(child), l, Process::stdoutStream, env);
      }
      vf::hit("launches"); vf::hit("distinct_nontrivial");
      if(!opened) { vf::violation("C20:process:open", cs, "open failed"); continue; }
      std::string out, err; bool ok = readAll(p, Process::stdoutStream, out, err);
      uint32 code = 99; bool j = p.join(code);
      std::vector<std::string> got; std::map<std::string, std::string> genv;
      if(!ok || !j || code != 0 || !parseEcho(out, got, genv)) { vf::violation("C20:process:launch", cs, "child did not run properly"); continue; }
      std::vector<std::string> want = args; want[0] = child;
      if(got != want) { std::string g; for(size_t i = 0; i < got.size(); ++i) g += "[" + got[i] + "]"; vf::violation("C20:process:argv", cs, "child received " + g); }
      std::string wa = envk >= 1 ? "1 2" : "inherited", wb = envk >= 2 ? "" : "<unset>", wh = envk == 0 ? "set" : "unset";
      setenv("HOME", "/root", 0);
      if(genv["VF_A"] != wa || genv["VF_B"] != wb || (envk > 0 && genv["HOME"] != "unset"))
        vf::violation(std::string("C20:process:environment:") + (overload ? "list-overload" : "argv-overload"), cs, "child saw VF_A='" + genv["VF_A"] + "' VF_B='" + genv["VF_B"] + "' HOME " + genv["HOME"] + "; expected VF_A='" + wa + "' VF_B='" + wb + "'" + (envk ? " HOME unset" : ""));
      vf::sample(cs, 2);
    }
    // (b) stream combinations x payload sizes
    static const long SIZES[] = {0, 1, 65535, 65536, 65537, 200000};
    for(uint streams = 0; streams < 8; ++streams) for(int si = 0; si < 6; ++si)
    {
      if(!sh.take()) continue;
      long sz = SIZES[si];
      bool in = streams & Process::stdinStream, so = streams & Process::stdoutStream, se = streams & Process::stderrStream;
      if(!so) continue; // the "IN" header goes to stdout: without a redirected stdout nothing can be observed
      std::string cs = vf::fmt("io streams=%u payload=%ld", streams, sz);
      vf::crumb("launch-io", sh.token(), cs);
      vf::watchdog_arm(30000);
      std::vector<std::string> args; args.push_back("argv0"); args.push_back("io"); args.push_back(vf::fmt("%ld", sz)); args.push_back(vf::fmt("%ld", se ? sz : 0)); args.push_back("7"); args.push_back(in ? "1" : "0");
      std::vector<char*> av; for(size_t i = 0; i < args.size(); ++i) av.push_back((char*)args[i].c_str());
      Process p;
      vf::hit("io_runs"); vf::hit("distinct_nontrivial");
      if(!p.open(S(child), (int)av.size(), &av[0], streams)) { vf::violation("C20:process:open", cs, "open failed"); continue; }
      unsigned long sum = 0;
      if(in)
      {
        std::string payload((size_t)sz, '\0');
        for(long i = 0; i < sz; ++i) { payload[i] = (char)(i * 7 + 3); sum = sum * 31 + (unsigned char)payload[i]; }
        long off = 0; bool wok = true;
        while(off < sz) { ssize n = p.write(payload.data() + off, (usize)(sz - off)); if(n <= 0) { wok = false; break; } off += n; }
        p.close(Process::stdinStream);
        if(!wok) { vf::violation("C20:process:stdin", cs, "write to the child's stdin failed"); p.kill(); continue; }
      }
      std::string out, err;
      bool ok = readAll(p, streams & (Process::stdoutStream | Process::stderrStream), out, err);
      uint32 code = 99; bool j = p.join(code);
      if(!ok || !j) { vf::violation("C20:process:launch", cs, "read/join failed"); continue; }
      if(code != 7) vf::violation("C20:process:exit-code", cs, vf::fmt("join reported exit code %u, child exited with 7", (unsigned)code));
      std::string head = vf::fmt("IN %lu %lu\n", in ? (unsigned long)sz : 0ul, in ? sum : 0ul);
      if(out.compare(0, head.size(), head) != 0) vf::violation("C20:process:stdin", cs, "child reports '" + out.substr(0, out.find('\n')) + "', expected '" + head.substr(0, head.size() - 1) + "'");
      else
      {
        std::string body = out.substr(head.size());
        bool good = (long)body.size() == sz; for(long i = 0; good && i < sz; ++i) if((unsigned char)body[i] != (unsigned char)('a' + i % 23)) good = false;
        if(!good) vf::violation("C20:process:stdout", cs, vf::fmt("read %ld bytes from stdout, child wrote %ld", (long)body.size(), sz));
      }
      if(se) { bool good = (long)err.size() == sz; for(long i = 0; good && i < sz; ++i) if((unsigned char)err[i] != (unsigned char)('A' + i % 19)) good = false; if(!good) vf::violation("C20:process:stderr", cs, vf::fmt("read %ld bytes from stderr, child wrote %ld", (long)err.size(), sz)); }
    }
    // (b') the stream combinations without a redirected stdout: the child reports on stderr, or through its exit code when neither
    //      output is redirected (its stdout is the explorer's and stays untouched)
    for(uint streams = 0; streams < 8; ++streams) for(int si = 0; si < 6; ++si)
    {
      if(!sh.take()) continue;
      long sz = SIZES[si];
      bool in = streams & Process::stdinStream, so = streams & Process::stdoutStream, se = streams & Process::stderrStream;
      if(so || (!in && !se)) continue;
      std::string cs = vf::fmt("io streams=%u (no stdout) payload=%ld", streams, sz);
      vf::crumb("launch-io", sh.token(), cs);
      vf::watchdog_arm(30000);
      std::string a3 = vf::fmt("%ld", se ? sz : 0);
      const char* av[] = {"argv0", "io", "0", a3.c_str(), "7", in ? "1" : "0", "0", se ? "e" : "x"};
      Process p;
      vf::hit("io_runs"); vf::hit("distinct_nontrivial");
      if(!p.open(S(child), 8, (char* const*)av, streams)) { vf::violation("C20:process:open", cs, "open failed"); continue; }
      unsigned long sum = 0;
      if(in)
      {
        std::string payload((size_t)sz, '\0');
        for(long i = 0; i < sz; ++i) { payload[i] = (char)(i * 7 + 3); sum = sum * 31 + (unsigned char)payload[i]; }
        long off = 0; bool wok = true;
        while(off < sz) { ssize n = p.write(payload.data() + off, (usize)(sz - off)); if(n <= 0) { wok = false; break; } off += n; }
        p.close(Process::stdinStream);
        if(!wok) { vf::violation("C20:process:stdin", cs, "write to the child's stdin failed"); p.kill(); continue; }
      }
      std::string out, err;
      bool ok = se ? readAll(p, Process::stderrStream, out, err) : true;
      uint32 code = 999; bool j = p.join(code);
      if(!ok || !j) { vf::violation("C20:process:launch", cs, "read/join failed"); continue; }
      if(!se)
      {
        uint32 want = (uint32)((sum + (unsigned long)sz) % 251);
        if(code != want) vf::violation("C20:process:stdin", cs, vf::fmt("the child's exit code (digest of what it read from stdin) is %u, expected %u", (unsigned)code, (unsigned)want));
        continue;
      }
      if(code != 7) vf::violation("C20:process:exit-code", cs, vf::fmt("join reported exit code %u, child exited with 7", (unsigned)code));
      std::string head = vf::fmt("IN %lu %lu\n", in ? (unsigned long)sz : 0ul, in ? sum : 0ul);
      if(err.compare(0, head.size(), head) != 0) vf::violation("C20:process:stdin", cs, "child reports '" + err.substr(0, err.find('\n')) + "', expected '" + head.substr(0, head.size() - 1) + "'");
      else
      {
        std::string body = err.substr(head.size());
        bool good = (long)body.size() == sz; for(long i = 0; good && i < sz; ++i) if((unsigned char)body[i] != (unsigned char)('A' + i % 19)) good = false;
        if(!good) vf::violation("C20:process:stderr", cs, vf::fmt("read %ld bytes from stderr, child wrote %ld", (long)body.size(), sz));
      }
    }
    // (d) two processes whose lifetimes overlap: closing, joining, killing or destroying one must not disturb the streams of the other
    //     (descriptor numbers are reused by the kernel: a descriptor closed twice is somebody else's the second time)
    for(int openSecond = 0; openSecond < 2; ++openSecond) for(int finish = 0; finish < 3; ++finish) for(int firstDone = 0; firstDone < 2; ++firstDone) for(int withErr = 0; withErr < 2; ++withErr)
    {
      if(!sh.take()) continue;
      uint streams2 = Process::stdoutStream | (withErr ? (uint)Process::stderrStream : 0u);
      std::string cs = vf::fmt("two processes: second opened %s close(stdin) of the first, first %s, %s finishes first, second streams=%u",
                               openSecond ? "after" : "before", finish == 0 ? "joined" : finish == 1 ? "killed after its output was read" : "destroyed", firstDone ? "the first" : "the second", streams2);
      vf::crumb("launch-two", sh.token(), cs);
      vf::watchdog_arm(30000);
      vf::hit("two_process_runs"); vf::hit("distinct_nontrivial");
      const char* av1[] = {"argv0", "io", "4", "0", "7", "1"};
      bool se2 = (streams2 & Process::stderrStream) != 0;
      const char* av2[] = {"argv0", "io", "3", se2 ? "3" : "0", "5", "0"};
      Process* p1 = new Process(); Process p2;
      bool bad = false;
      if(!p1->open(S(child), 6, (char* const*)av1, Process::stdinStream | Process::stdoutStream)) { vf::violation("C20:process:open", cs, "open of the first process failed"); delete p1; continue; }
      if(!openSecond && !p2.open(S(child), 6, (char* const*)av2, streams2)) { vf::violation("C20:process:open", cs, "open of the second process failed"); bad = true; }
      if(p1->write("wxyz", 4) != 4) { vf::violation("C20:process:stdin", cs, "write to the first child's stdin failed"); bad = true; }
      p1->close(Process::stdinStream);
      if(openSecond && !bad && !p2.open(S(child), 6, (char* const*)av2, streams2)) { vf::violation("C20:process:open", cs, "open of the second process failed"); bad = true; }
      std::string out1, err1, out2, err2; uint32 code1 = 99, code2 = 99;
      bool ok1 = true, ok2 = true, j1 = true, j2 = true;
      for(int step = 0; step < 2 && !bad; ++step)
      {
        bool doFirst = (step == 0) == (firstDone != 0);
        if(doFirst)
        {
          ok1 = readAll(*p1, Process::stdoutStream, out1, err1);
          if(finish == 0) j1 = p1->join(code1); else if(finish == 1) { p1->kill(); code1 = 7; } else { delete p1; p1 = 0; code1 = 7; }
        }
        else { ok2 = readAll(p2, streams2 & (Process::stdoutStream | Process::stderrStream), out2, err2); j2 = p2.join(code2); }
      }
      delete p1;
      if(bad) continue;
      std::string head1 = "IN 4 ", want2 = "IN 0 0\nabc", wantErr2 = se2 ? "ABC" : "";
      if(!ok1 || !j1 || out1.compare(0, head1.size(), head1) != 0 || out1.size() < 4 || out1.substr(out1.size() - 4) != "abcd" || code1 != 7)
        vf::violation("C20:process:overlap", cs, "first process: read ok=" + vf::fmt("%d join=%d code=%u", (int)ok1, (int)j1, (unsigned)code1) + " output '" + vf::show(out1) + "'");
      if(!ok2 || !j2 || out2 != want2 || err2 != wantErr2 || code2 != 5)
        vf::violation("C20:process:overlap", cs, "second process: read ok=" + vf::fmt("%d join=%d code=%u", (int)ok2, (int)j2, (unsigned)code2) + " stdout '" + vf::show(out2) + "' stderr '" + vf::show(err2) + "'");
    }
    // (e) the same Process object used for a second child after the first one ended: nothing of the first run (descriptors, exit code,
    //     stream set) may show in the second
    for(int first = 0; first < 3; ++first) for(int end1 = 0; end1 < 2; ++end1) for(int second = 0; second < 3; ++second) for(int closeIn = 0; closeIn < 2; ++closeIn)
    {
      if(!sh.take()) continue;
      static const uint SETS1[] = {Process::stdinStream | Process::stdoutStream, Process::stdinStream | Process::stdoutStream | Process::stderrStream, Process::stdoutStream | Process::stderrStream};
      static const uint SETS2[] = {Process::stdoutStream, Process::stdoutStream | Process::stderrStream, Process::stdinStream | Process::stdoutStream};
      uint s1 = SETS1[first], s2 = SETS2[second];
      std::string cs = vf::fmt("one Process object, two children: first streams=%u %s stdin, %s; second streams=%u", s1, closeIn ? "closing" : "not closing", end1 ? "killed" : "joined", s2);
      vf::crumb("launch-reuse", sh.token(), cs);
      vf::watchdog_arm(30000);
      vf::hit("reuse_runs"); vf::hit("distinct_nontrivial");
      bool in1 = (s1 & Process::stdinStream) != 0, se1 = (s1 & Process::stderrStream) != 0;
      const char* av1[] = {"argv0", "io", "4", se1 ? "4" : "0", "7", in1 ? "1" : "0"};
      Process p;
      if(!p.open(S(child), 6, (char* const*)av1, s1)) { vf::violation("C20:process:open", cs, "open of the first child failed"); continue; }
      if(in1) { if(p.write("wxyz", 4) != 4) vf::violation("C20:process:stdin", cs, "write to the first child's stdin failed"); if(closeIn || !end1) p.close(Process::stdinStream); }
      std::string out1, err1; uint32 code1 = 99;
      if(end1) p.kill();
      else
      {
        bool ok1 = readAll(p, s1 & (Process::stdoutStream | Process::stderrStream), out1, err1);
        bool j1 = p.join(code1);
        if(!ok1 || !j1 || code1 != 7 || out1.size() < 4 || out1.substr(out1.size() - 4) != "abcd" || (se1 && err1 != "ABCD"))
          vf::violation("C20:process:reuse", cs, "first child: " + vf::fmt("read ok=%d join=%d code=%u", (int)ok1, (int)j1, (unsigned)code1) + " stdout '" + vf::show(out1) + "' stderr '" + vf::show(err1) + "'");
      }
      bool in2 = (s2 & Process::stdinStream) != 0, se2 = (s2 & Process::stderrStream) != 0;
      const char* av2[] = {"argv0", "io", "3", se2 ? "3" : "0", "5", in2 ? "1" : "0"};
      if(!p.open(S(child), 6, (char* const*)av2, s2)) { vf::violation("C20:process:reuse", cs, "open of the second child on the same object failed"); continue; }
      if(in2) { if(p.write("pq", 2) != 2) vf::violation("C20:process:reuse", cs, "write to the second child's stdin failed"); p.close(Process::stdinStream); }
      std::string out2, err2; uint32 code2 = 99;
      bool ok2 = readAll(p, s2 & (Process::stdoutStream | Process::stderrStream), out2, err2);
      bool j2 = p.join(code2);
      unsigned long sum2 = 0; if(in2) { sum2 = sum2 * 31 + 'p'; sum2 = sum2 * 31 + 'q'; }
      std::string want2 = vf::fmt("IN %lu %lu\nabc", in2 ? 2ul : 0ul, sum2);
      if(!ok2 || !j2 || code2 != 5 || out2 != want2 || err2 != (se2 ? "ABC" : ""))
        vf::violation("C20:process:reuse", cs, "second child: " + vf::fmt("read ok=%d join=%d code=%u", (int)ok2, (int)j2, (unsigned)code2) + " stdout '" + vf::show(out2) + "' (expected '" + vf::show(want2) + "') stderr '" + vf::show(err2) + "'");
    }
    // (f) join without draining: the child writes (a few bytes, they fit into the pipe) only after the parent is already inside join();
    //     the statement gives join() the child's exit code whatever the parent has read
    for(int streams = 0; streams < 3; ++streams) for(int how = 0; how < 2; ++how)
    {
      if(!sh.take()) continue;
      static const uint SETS[] = {Process::stdoutStream, Process::stdoutStream | Process::stderrStream, Process::stdinStream | Process::stdoutStream | Process::stderrStream};
      uint st = SETS[streams];
      std::string cs = vf::fmt("late writer: streams=%u, child writes 150 ms after its start, parent %s", st, how ? "joins through join() (no exit code)" : "joins at once");
      vf::crumb("launch-late", sh.token(), cs);
      vf::watchdog_arm(30000);
      vf::hit("late_writer_runs"); vf::hit("distinct_nontrivial");
      bool se = (st & Process::stderrStream) != 0;
      const char* av[] = {"argv0", "io", "3", se ? "3" : "0", "7", "0", "150"};
      Process p;
      if(!p.open(S(child), 7, (char* const*)av, st)) { vf::violation("C20:process:open", cs, "open failed"); continue; }
      uint32 code = 99;
      bool j = how ? p.join() : p.join(code);
      if(!j) { vf::violation("C20:process:exit-code", cs, "join failed"); continue; }
      if(!how && code != 7) vf::violation("C20:process:exit-code", cs, vf::fmt("join reported exit code %u, child exited with 7 (a child killed by SIGPIPE reports 0)", (unsigned)code));
    }
    // (c) exit codes
    for(int code = 0; code < 256; ++code)
    {
      if(!sh.take()) continue;
      std::string cs = vf::fmt("exit code %d", code);
      vf::crumb("launch-exit", sh.token(), cs);
      vf::watchdog_arm(15000);
      std::string c = vf::fmt("%d", code);
      const char* av[] = {"argv0", "io", "0", "0", c.c_str(), "0"};
      Process p;
      vf::hit("exit_code_runs"); vf::hit("distinct_nontrivial");
      if(!p.start(S(child), 6, (char* const*)av)) { vf::violation("C20:process:start", cs, "start failed"); continue; }
      uint32 got = 999;
      if(!p.join(got) || got != (uint32)code) vf::violation("C20:process:exit-code", cs, vf::fmt("join reported %u", (unsigned)got));
    }
  }
  vf::watchdog_disarm();
  vf::emit_counters();
  return 0;
}
