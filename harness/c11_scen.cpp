// C11 scenarios for explorer B: Mutex, Semaphore, Signal, Monitor, Thread under every bounded schedule.
// Compiled with -fsanitize=thread (own runtime) and the renaming shim, like the library sources.
#include <nstd/Mutex.hpp>
#include <nstd/Semaphore.hpp>
#include <errno.h>
#include <nstd/Signal.hpp>
#include <nstd/Monitor.hpp>
#include <nstd/Thread.hpp>
#include "engine/sched/sched.h"

static volatile int g_pt;
#define POINT() (g_pt = g_pt + 1)

// harness bookkeeping (only one scenario thread runs at a time, so plain variables are safe)
static int occupancy, maxOccupancy;
static int successes, signalsStarted, initialCount;
static int setStarted, setDone; static volatile int resetDone;
static int results[8];

// ------------------------------------------------------------------------------------------------ Mutex
static Mutex* g_mutex;
static void enter() { if(++occupancy > 1) vf_failf("C11:mutex:exclusion", "two threads are inside the critical section"); if(occupancy > maxOccupancy) maxOccupancy = occupancy; }
static void leave() { --occupancy; }
static uint contender(void*) { g_mutex->lock(); enter(); POINT(); leave(); g_mutex->unlock(); return 0; }
static uint contenderTwice(void*) { for(int i = 0; i < 2; ++i) { g_mutex->lock(); enter(); POINT(); leave(); g_mutex->unlock(); } return 0; }
static uint recursiveOwner(void*)
{
  g_mutex->lock(); enter(); POINT();
  g_mutex->lock();            // re-entrant for its owner
  POINT();
  g_mutex->unlock();
  POINT();                    // still inside: the outer lock is held
  leave(); g_mutex->unlock();
  return 0;
}
static uint tryLocker(void*)
{
  long b0 = vf_my_block_count();
  bool ok = g_mutex->tryLock();
  if(vf_my_block_count() != b0) vf_failf("C11:mutex:tryLock-blocked", "tryLock blocked the calling thread");
  if(ok) { enter(); POINT(); leave(); g_mutex->unlock(); }
  results[vf_thread_id()] = ok;
  return 0;
}
// Mutex objects with static storage duration: one constructed before every other static object of the program (the order between
// translation units is unspecified, so the library must not depend on its own statics being ready), one in the default order
static Mutex s_earlyMutex __attribute__((init_priority(101)));
static Mutex s_staticMutex;
static void scenMutex(int variant)
{
  Mutex local;
  Mutex& m = variant == 4 ? s_earlyMutex : variant == 5 ? s_staticMutex : local;
  g_mutex = &m; occupancy = maxOccupancy = 0;
  if(!m.tryLock()) vf_failf("C11:mutex:tryLock-free", "tryLock on a free mutex failed");
  else m.unlock();
  Thread a, b, c;
  switch(variant)
  {
  case 0: a.start(contender, 0); b.start(contender, 0); c.start(contender, 0); break;
  case 1: a.start(recursiveOwner, 0); b.start(contender, 0); break;
  case 2: a.start(contender, 0); b.start(tryLocker, 0); c.start(tryLocker, 0); break;
  case 4: case 5: a.start(recursiveOwner, 0); b.start(tryLocker, 0); break;
  default: a.start(contenderTwice, 0); b.start(contenderTwice, 0); break;
  }
  a.join(); b.join(); c.join();
  if(!m.tryLock()) vf_failf("C11:mutex:tryLock-free", "tryLock on a free mutex failed after all threads left");
  else m.unlock();
  vf_outcome("maxocc=%d try=%d%d", maxOccupancy, results[2], results[3]);
}

// ------------------------------------------------------------------------------------------------ Semaphore
static Semaphore* g_sem;
static void gotOne() { if(++successes > initialCount + signalsStarted) vf_failf("C11:semaphore:conservation", "%d successful waits with initial value %d and %d signals", successes, initialCount, signalsStarted); }
static uint semWaiter(void*)
{ // an interrupted wait (EINTR deviation) may report false - the property only forbids a success without a unit - and is repeated
  for(;;)
  {
    errno = 0;
    if(g_sem->wait()) { gotOne(); return 0; }
    if(errno != EINTR) { vf_failf("C11:semaphore:wait-failed", "wait() returned false"); return 0; }
  }
}
static long long semPostAt; static bool semMissed[8];
static uint semSignaler(void*) { ++signalsStarted; g_sem->signal(); semPostAt = vf_now_ns(); return 0; }
static uint semTryWaiter(void*) { long b0 = vf_my_block_count(); bool ok = g_sem->tryWait(); if(vf_my_block_count() != b0) vf_failf("C11:semaphore:tryWait-blocked", "tryWait blocked"); if(ok) gotOne(); results[vf_thread_id()] = ok; return 0; }
static uint semTimedWaiter(void* p)
{
  long long timeout = (long long)(long)p, start = vf_now_ns();
  bool ok = g_sem->wait(timeout);
  if(ok) gotOne();
  else if(vf_now_ns() < start + timeout * 1000000LL) vf_failf("C11:semaphore:timeout-early", "wait(%lld ms) returned false after %lld ns", timeout, vf_now_ns() - start);
  if(!ok && semPostAt && semPostAt < start + timeout * 1000000LL) semMissed[vf_thread_id()] = true;   // judged at the end: was the unit still there?
  results[vf_thread_id()] = ok;
  return 0;
}
static void scenSemaphore(int variant)
{
  successes = signalsStarted = 0; semPostAt = 0; for(int i = 0; i < 8; ++i) semMissed[i] = false;
  Thread a, b, c;
  if(variant == 0)
  { // count 1, two blocking waiters, one signaler: everybody must get through (a lost unit is a deadlock)
    initialCount = 1; Semaphore s(1); g_sem = &s;
    a.start(semWaiter, 0); b.start(semWaiter, 0); c.start(semSignaler, 0);
    a.join(); b.join(); c.join();
    if(successes != 2) vf_failf("C11:semaphore:conservation", "%d successful waits, expected 2", successes);
    if(s.tryWait()) vf_failf("C11:semaphore:conservation", "a unit is left over after two waits consumed initial value 1 + one signal");
  }
  else if(variant == 1)
  { // count 0: a tryWait and a blocking waiter compete for one signal; a second signal releases the other
    initialCount = 0; Semaphore s(0); g_sem = &s;
    a.start(semWaiter, 0); b.start(semTryWaiter, 0); c.start(semSignaler, 0);
    b.join(); c.join();
    if(results[2]) { ++signalsStarted; s.signal(); }   // the tryWait took the unit: give the blocking waiter its own
    a.join();
    vf_outcome("try=%d", results[2]);
  }
  else
  { // two timed waiters, one signal
    initialCount = 0; Semaphore s(0); g_sem = &s;
    a.start(semTimedWaiter, (void*)(long)(variant == 2 ? 5 : 1500));
    b.start(semSignaler, 0);
    c.start(semTimedWaiter, (void*)(long)20);
    a.join(); b.join(); c.join();
    bool left = s.tryWait();
    if(left && (semMissed[1] || semMissed[3])) vf_failf("C11:semaphore:blocked-while-positive", "a timed wait ran into its timeout although signal() had returned before the deadline and the unit was never taken");
    if(successes + (left ? 1 : 0) != 1) vf_failf("C11:semaphore:conservation", "one signal, %d successful timed waits and %d units left", successes, (int)left);
    vf_outcome("a=%d c=%d", results[1], results[3]);
  }
}

// ------------------------------------------------------------------------------------------------ Signal
static Signal* g_sig;
static uint sigWaiter(void*)
{
  bool ok = g_sig->wait();
  if(!ok) vf_failf("C11:signal:wait-false", "untimed wait returned false");
  else if(setStarted == 0) vf_failf("C11:signal:wait-without-set", "wait returned true although the signal has not been set");
  return 0;
}
static long long setDoneAt; static bool g_noReset;
static uint sigSetter(void*) { ++setStarted; g_sig->set(); setDoneAt = vf_now_ns(); ++setDone; return 0; }
static uint sigSetterAfterReset(void*) { while(!resetDone) Thread::yield(); ++setStarted; g_sig->set(); ++setDone; return 0; }
static uint sigResetter(void*) { g_sig->reset(); ++resetDone; return 0; }
static uint sigResetThenWait(void*)
{
  g_sig->reset(); ++resetDone;
  bool ok = g_sig->wait();
  if(!ok) vf_failf("C11:signal:wait-false", "untimed wait returned false");
  else if(setStarted == 0) vf_failf("C11:signal:wait-after-reset", "wait returned true after reset although no set happened since");
  return 0;
}
static uint sigTimedWaiter(void* p)
{
  long long timeout = (long long)(long)p, start = vf_now_ns();
  bool ok = g_sig->wait(timeout);
  if(ok && setStarted == 0) vf_failf("C11:signal:wait-without-set", "timed wait returned true although the signal has not been set");
  if(!ok && vf_now_ns() < start + timeout * 1000000LL) vf_failf("C11:signal:timeout-early", "wait(%lld ms) returned false after %lld ns", timeout, vf_now_ns() - start);
  // no waiter stays blocked while the signal remains set: set() had returned before the deadline and nobody resets in this scenario
  if(!ok && g_noReset && setDone && setDoneAt < start + timeout * 1000000LL)
    vf_failf("C11:signal:blocked-while-set", "wait(%lld ms) timed out although set() had returned %lld ms before the deadline and the signal was never reset", timeout, (start + timeout * 1000000LL - setDoneAt) / 1000000);
  results[vf_thread_id()] = ok;
  return 0;
}
static void scenSignal(int variant)
{
  setStarted = setDone = resetDone = 0; setDoneAt = 0; g_noReset = variant == 3;
  Thread a, b, c;
  if(variant == 0) { Signal s; g_sig = &s; a.start(sigWaiter, 0); b.start(sigWaiter, 0); c.start(sigSetter, 0); a.join(); b.join(); c.join(); }
  else if(variant == 1) { Signal s(true); g_sig = &s; a.start(sigResetThenWait, 0); b.start(sigSetterAfterReset, 0); a.join(); b.join(); }
  else if(variant == 2) { Signal s; g_sig = &s; a.start(sigTimedWaiter, (void*)(long)30); a.join(); if(results[1]) vf_failf("C11:signal:wait-without-set", "timed wait on an unset signal succeeded"); }
  else if(variant == 3) { Signal s; g_sig = &s; a.start(sigTimedWaiter, (void*)(long)30); b.start(sigSetter, 0); c.start(sigWaiter, 0); a.join(); b.join(); c.join(); vf_outcome("timed=%d", results[1]); }
  else { Signal s; g_sig = &s; a.start(sigTimedWaiter, (void*)(long)50); b.start(sigSetter, 0); c.start(sigResetter, 0); a.join(); b.join(); c.join(); vf_outcome("timed=%d", results[1]); }
}

// ------------------------------------------------------------------------------------------------ Monitor
static Monitor* g_mon;
static volatile int g_waiterLocked;
static uint monWaiter(void*)
{
  Monitor::Guard g(*g_mon);
  g_waiterLocked = 1;
  bool ok = g.wait();
  if(!ok) vf_failf("C11:monitor:wait-false", "untimed wait returned false");
  else if(++successes > setStarted) vf_failf("C11:monitor:wait-without-set", "%d successful waits, %d set() calls", successes, setStarted);
  return 0;
}
static uint monSetterAfterLock(void*)
{
  while(!g_waiterLocked) Thread::yield();
  ++setStarted; g_mon->set();
  return 0;
}
static uint monTimedWaiter(void* p)
{
  long long timeout = (long long)(long)p;
  Monitor::Guard g(*g_mon);
  long long start = vf_now_ns();
  bool ok = g.wait(timeout);
  if(ok) { if(++successes > setStarted) vf_failf("C11:monitor:wait-without-set", "%d successful waits, %d set() calls", successes, setStarted); }
  else if(vf_now_ns() < start + timeout * 1000000LL) vf_failf("C11:monitor:timeout-early", "wait(%lld ms) returned false after %lld ns", timeout, vf_now_ns() - start);
  results[vf_thread_id()] = ok;
  return 0;
}
static uint monSetter(void*) { ++setStarted; g_mon->set(); return 0; }
static uint monPasserBy(void*) { while(!g_waiterLocked) Thread::yield(); { Monitor::Guard g(*g_mon); } return 0; }
static uint monWaitTwice(void*)
{ // one set() must satisfy exactly one wait: the second (timed) wait of the same thread has to time out
  Monitor::Guard g(*g_mon);
  g_waiterLocked = 1;
  if(g.wait()) ++successes; else vf_failf("C11:monitor:wait-false", "untimed wait returned false");
  long long start = vf_now_ns();
  bool again = g.wait(30);
  if(again && ++successes > setStarted) vf_failf("C11:monitor:wait-without-set", "%d successful waits, %d set() calls", successes, setStarted);
  if(!again && vf_now_ns() < start + 30 * 1000000LL) vf_failf("C11:monitor:timeout-early", "wait(30 ms) returned false early");
  return 0;
}
static void scenMonitor(int variant)
{
  successes = setStarted = 0; g_waiterLocked = 0;
  Monitor m; g_mon = &m;
  Thread a, b, c;
  if(variant == 0) { a.start(monWaiter, 0); b.start(monSetterAfterLock, 0); a.join(); b.join(); }       // a lost wake-up is a deadlock
  else if(variant == 1) { a.start(monTimedWaiter, (void*)(long)30); b.start(monTimedWaiter, (void*)(long)30); c.start(monSetter, 0); a.join(); b.join(); c.join(); vf_outcome("a=%d b=%d", results[1], results[2]); }
  else if(variant == 2) { a.start(monTimedWaiter, (void*)(long)40); a.join(); if(results[1]) vf_failf("C11:monitor:wait-without-set", "timed wait succeeded although set() was never called"); }
  else if(variant == 3) { a.start(monWaitTwice, 0); b.start(monSetterAfterLock, 0); a.join(); b.join(); }
  else if(variant == 5)
  { // a third thread merely takes and releases the monitor around the set(): that must not cost the waiter its wake-up
    a.start(monWaiter, 0); b.start(monSetterAfterLock, 0); c.start(monPasserBy, 0); a.join(); b.join(); c.join();
  }
  else
  { // a set() that nobody waited for leaves the flag up; a waiter that arrives later still blocks (wait does not look at the flag first),
    // so the next set() - issued after the waiter has taken the monitor - has to wake it
    ++setStarted; m.set();
    a.start(monWaiter, 0); b.start(monSetterAfterLock, 0); a.join(); b.join();
  }
}

// ------------------------------------------------------------------------------------------------ Thread
static volatile int g_finished, g_ran2;
static Signal* g_gate;
static uint procSeven(void*) { POINT(); g_finished = 1; return 7; }
static uint procGate(void*) { g_gate->wait(); g_finished = 1; return 9; }
static uint procTwo(void*) { g_ran2 = 1; return 2; }
static void scenThread(int variant)
{
  g_finished = 0; g_ran2 = 0;
  if(variant == 0)
  {
    Thread t;
    if(!t.start(procSeven, 0)) vf_failf("C11:thread:start", "start failed");
    uint r = t.join();
    if(!g_finished) vf_failf("C11:thread:join-early", "join returned before the thread function finished");
    if(r != 7) vf_failf("C11:thread:join-result", "join returned %u, the thread function returned 7", r);
  }
  else if(variant == 1)
  {
    Signal gate; g_gate = &gate;
    Thread t;
    t.start(procGate, 0);
    bool second = t.start(procTwo, 0);
    if(second) vf_failf("C11:thread:double-start", "a second start() on a running thread succeeded");
    gate.set();
    uint r = t.join();
    if(r != 9 || !g_finished) vf_failf("C11:thread:join-result", "join returned %u (finished=%d), expected 9", r, (int)g_finished);
    if(g_ran2) vf_failf("C11:thread:double-start", "the function of the rejected second start ran");
  }
  else if(variant == 2)
  {
    { Thread t; t.start(procSeven, 0); }
    if(!g_finished) vf_failf("C11:thread:destructor-join", "the destructor returned before the thread function finished");
  }
  else
  { // the same Thread object used again after join: each join reports the function of its own start
    Thread t;
    t.start(procSeven, 0);
    uint r1 = t.join();
    if(r1 != 7 || !g_finished) vf_failf("C11:thread:join-result", "first join returned %u (finished=%d), expected 7", r1, (int)g_finished);
    g_finished = 0;
    if(!t.start(procTwo, 0)) vf_failf("C11:thread:start", "start after join failed");
    uint r2 = t.join();
    if(r2 != 2 || !g_ran2) vf_failf("C11:thread:join-result", "join after the second start returned %u (ran=%d), expected 2", r2, (int)g_ran2);
    Signal gate; g_gate = &gate;
    if(!t.start(procGate, 0)) vf_failf("C11:thread:start", "third start failed");
    gate.set();
    uint r3 = t.join();
    if(r3 != 9 || !g_finished) vf_failf("C11:thread:join-result", "third join returned %u (finished=%d), expected 9", r3, (int)g_finished);
  }
}

// ------------------------------------------------------------------------------------------------ deadline arithmetic of the timed waits
static void scenDeadline(int variant)
{
  static const long long nsecs[] = {0, 999000000LL, 999999999LL};
  static const long long timeouts[] = {0, 1, 999, 1000, 1001, 2500, 4294967, 4294968, 4295000};   // the last three: around 2^32 microseconds
  int kind = variant / 27, ni = (variant / 9) % 3, ti = variant % 9;
  vf_set_clock_ns(1700000000LL * 1000000000LL + nsecs[ni]);
  long long timeout = timeouts[ti], start = vf_now_ns();
  bool ok;
  if(kind == 0) { Signal s; ok = s.wait(timeout); }
  else if(kind == 1) { Monitor m; Monitor::Guard g(m); ok = g.wait(timeout); }
  else { Semaphore s(0); ok = s.wait(timeout); }
  if(ok) vf_failf("C11:timed:success-without-signal", "timed wait succeeded although nothing was signalled");
  else if(vf_now_ns() < start + timeout * 1000000LL) vf_failf("C11:timed:timeout-early", "kind %d: wait(%lld ms) at nsec=%lld returned false after %lld ns", kind, timeout, nsecs[ni], vf_now_ns() - start);
  vf_outcome("elapsed=%lld", (vf_now_ns() - start) / 1000000LL);
}

struct Scen { const char* name; void (*fn)(int); int variants; };
static const Scen SCEN[] = {{"mutex", scenMutex, 6}, {"semaphore", scenSemaphore, 4}, {"signal", scenSignal, 5}, {"monitor", scenMonitor, 6}, {"thread", scenThread, 4}, {"deadline", scenDeadline, 81}};
extern "C" int vf_scenario_count(void) { return (int)(sizeof(SCEN) / sizeof(*SCEN)); }
extern "C" const char* vf_scenario_name(int id) { return SCEN[id].name; }
extern "C" int vf_scenario_variants(int id) { return SCEN[id].variants; }
extern "C" void vf_scenario_run(int id, int variant) { for(int i = 0; i < 8; ++i) results[i] = 0; SCEN[id].fn(variant); }
