// C08: history harness for Buffer.  Two variables A (default constructed) and B (Buffer(4)),
// two external ranges for attach.  Canonical state = (owned, head-room, size, capacity, attached-to)
// of both variables - exactly the fields Buffer's branches test; byte values are data only.
#define VF_LEDGER
#include <nstd/Buffer.hpp>
#include "engine/histbfs.hpp"
#include <algorithm>

#define LIB(...) do { vf::Track t_; __VA_ARGS__; } while(0)

struct Cfg
{
  int maxSize;
};

static const int WILD = -1;
static const int RANGE_LEN = 5;

struct Model
{
  std::vector<int> bytes;   // 0..255 or WILD
  int attached;             // -1 none, else index of the external range the window lies in
  Model() : attached(-1) {}
};

struct H
{
  Cfg cfg;
  Buffer* v[2];
  Model m[2];
  unsigned char* range[2];      // exactly sized heap ranges (ASan red zones on both sides)
  unsigned char pristine[2][RANGE_LEN];
  int nextByte;
  struct Op { int kind, x, y; };
  std::vector<Op> ops;
  bool opsValid;
  enum { APPEND, PREPEND, APPENDBUF, PREPENDBUF, ASSIGN, ASSIGN_AB, ASSIGN_BA, COPY, RESIZE, RESERVE, REMF, REMB, CLEAR, FREE, SWAP, ATTACH };

  H(const Cfg& c) : cfg(c), nextByte(1), opsValid(false)
  {
    vf::ledger().live_blocks = 0; vf::ledger().live_bytes = 0;
    for(int r = 0; r < 2; ++r)
    {
      range[r] = (unsigned char*)malloc(RANGE_LEN);
      for(int i = 0; i < RANGE_LEN; ++i) pristine[r][i] = range[r][i] = (unsigned char)(200 + r * 10 + i);
    }
    LIB(v[0] = new Buffer());
    LIB(v[1] = new Buffer(4));
  }

  void add(int kind, int x = 0, int y = 0) { Op o = {kind, x, y}; ops.push_back(o); }
  void buildOps()
  {
    ops.clear();
    int n = (int)m[0].bytes.size(), nb = (int)m[1].bytes.size();
    int cap = (int)v[0]->capacity();
    for(int k = 1; k <= 3; ++k) if(n + k <= cfg.maxSize) { add(APPEND, k); add(PREPEND, k); }
    if(n + nb <= cfg.maxSize) { add(APPENDBUF); add(PREPENDBUF); }
    static const int as[] = {0, 2, 5};
    for(int j = 0; j < 3; ++j) add(ASSIGN, as[j]);
    add(ASSIGN_AB); add(ASSIGN_BA); add(COPY);
    {
      int rs[] = {0, 1, n - 1, n + 1, cap, cap + 1};
      std::vector<int> u(rs, rs + 6); std::sort(u.begin(), u.end()); u.erase(std::unique(u.begin(), u.end()), u.end());
      for(size_t j = 0; j < u.size(); ++j) if(u[j] >= 0 && u[j] <= cfg.maxSize) add(RESIZE, u[j]);
      for(size_t j = 0; j < u.size(); ++j) if(u[j] >= 0 && u[j] <= cfg.maxSize + 2) add(RESERVE, u[j]);
    }
    {
      int rs[] = {1, 2, n, n + 1};
      std::vector<int> u(rs, rs + 4); std::sort(u.begin(), u.end()); u.erase(std::unique(u.begin(), u.end()), u.end());
      for(size_t j = 0; j < u.size(); ++j) if(u[j] >= 0) { add(REMF, u[j]); add(REMB, u[j]); }
    }
    add(CLEAR); add(FREE); add(SWAP, 0); add(SWAP, 1);
    for(int r = 0; r < 2; ++r)
    {
      // a range may be attached to one buffer at a time (two windows over one range would alias)
      if(stillAttached(1) == r) continue;
      add(ATTACH, r, RANGE_LEN);
      add(ATTACH, r, 3);
    }
    opsValid = true;
  }
  int nops() { if(!opsValid) buildOps(); return (int)ops.size(); }
  static const char* kindName(int k)
  {
    static const char* n[] = {"append", "prepend", "appendBuffer", "prependBuffer", "assign", "assignAfromB", "assignBfromA", "copyConstructBfromA", "resize", "reserve",
      "removeFront", "removeBack", "clear", "free", "swap", "attach"};
    return n[k];
  }
  std::string opname(int i)
  {
    if(!opsValid) buildOps();
    const Op& o = ops[i];
    return vf::fmt("A.%s(%d,%d) [A: size %d cap %d; B: size %d cap %d]", kindName(o.kind), o.x, o.y, (int)m[0].bytes.size(), (int)v[0]->capacity(), (int)m[1].bytes.size(), (int)v[1]->capacity());
  }

  std::vector<unsigned char> fresh(int k) { std::vector<unsigned char> d; for(int i = 0; i < k; ++i) { d.push_back((unsigned char)nextByte); nextByte = nextByte % 199 + 1; } return d; }

  void apply(int i)
  {
    if(!opsValid) buildOps();
    Op o = ops[i];
    opsValid = false;
    vf::hit((std::string("opcalls:") + kindName(o.kind)).c_str());
    Buffer& a = *v[0];
    Buffer& b = *v[1];
    std::vector<int>& ma = m[0].bytes;
    std::vector<int>& mb = m[1].bytes;
    switch(o.kind)
    {
    case APPEND: case PREPEND:
    {
      std::vector<unsigned char> d = fresh(o.x);
      unsigned char* src = (unsigned char*)malloc(d.size()); memcpy(src, &d[0], d.size());   // exactly sized source
      if(o.kind == APPEND) { LIB(a.append(src, d.size())); ma.insert(ma.end(), d.begin(), d.end()); }
      else { LIB(a.prepend(src, d.size())); ma.insert(ma.begin(), d.begin(), d.end()); }
      ::free(src);
      if(o.kind == APPEND || !inRange(0)) m[0].attached = stillAttached(0);
      break;
    }
    case APPENDBUF: LIB(a.append(b)); ma.insert(ma.end(), mb.begin(), mb.end()); m[0].attached = stillAttached(0); break;
    case PREPENDBUF: LIB(a.prepend(b)); ma.insert(ma.begin(), mb.begin(), mb.end()); m[0].attached = stillAttached(0); break;
    case ASSIGN:
    {
      std::vector<unsigned char> d = fresh(o.x);
      unsigned char* src = (unsigned char*)malloc(d.size() ? d.size() : 1); if(d.size()) memcpy(src, &d[0], d.size());
      LIB(a.assign(src, d.size()));
      ::free(src);
      ma.assign(d.begin(), d.end());
      m[0].attached = stillAttached(0);
      break;
    }
    case ASSIGN_AB: LIB(a = b); ma = mb; m[0].attached = stillAttached(0); break;
    case ASSIGN_BA: LIB(b = a); mb = ma; m[1].attached = stillAttached(1); break;
    case COPY:
    {
      Buffer* n = 0;
      LIB(n = new Buffer(a));
      LIB(delete v[1]);
      v[1] = n; mb = ma; m[1].attached = -1;
      break;
    }
    case RESIZE:
      LIB(a.resize((usize)o.x));
      if(o.x <= (int)ma.size()) ma.resize(o.x); else while((int)ma.size() < o.x) ma.push_back(WILD);
      m[0].attached = stillAttached(0);
      break;
    case RESERVE: LIB(a.reserve((usize)o.x)); m[0].attached = stillAttached(0); break;
    case REMF: LIB(a.removeFront((usize)o.x)); if(o.x >= (int)ma.size()) ma.clear(); else ma.erase(ma.begin(), ma.begin() + o.x); m[0].attached = stillAttached(0); break;
    case REMB: LIB(a.removeBack((usize)o.x)); if(o.x >= (int)ma.size()) ma.clear(); else ma.resize(ma.size() - o.x); m[0].attached = stillAttached(0); break;
    case CLEAR: LIB(a.clear()); ma.clear(); m[0].attached = stillAttached(0); break;
    case FREE: LIB(a.free()); ma.clear(); m[0].attached = -1; break;
    case SWAP: if(o.x) LIB(b.swap(a)); else LIB(a.swap(b)); std::swap(m[0], m[1]); break;
    case ATTACH:
      // the range is restored to its pristine content before it is attached (the library may have
      // written inside it while it was attached earlier, which the statement allows)
      memcpy(range[o.x], pristine[o.x], RANGE_LEN);
      LIB(a.attach(range[o.x], (usize)o.y));
      ma.clear();
      for(int j = 0; j < o.y; ++j) ma.push_back(range[o.x][j]);
      m[0].attached = o.x;
      break;
    }
    verify(kindName(o.kind));
  }

  // is the window of variable w inside external range r?
  bool inRange(int w) const { return stillAttached(w) >= 0; }
  int stillAttached(int w) const
  {
    const unsigned char* p = (const unsigned char*)(const byte*)*v[w];
    for(int r = 0; r < 2; ++r) if(p >= range[r] && p <= range[r] + RANGE_LEN && v[w]->size() > 0) return r;
    // an emptied attached buffer no longer exposes the range
    return -1;
  }

  void verifyOne(int w, const char* after)
  {
    Buffer& b = *v[w];
    const char* nm = w ? "B" : "A";
    std::vector<int>& mm = m[w].bytes;
    VF_CHECK(b.size() == mm.size(), "C08:Buffer:size", "after %s: %s.size() = %d, reference %d", after, nm, (int)b.size(), (int)mm.size());
    VF_CHECK(b.isEmpty() == mm.empty(), "C08:Buffer:isEmpty", "after %s: %s.isEmpty() wrong", after, nm);
    const unsigned char* p = (const unsigned char*)(const byte*)b;
    for(size_t i = 0; i < mm.size(); ++i)
      if(mm[i] != WILD)
        VF_CHECK(p[i] == mm[i], "C08:Buffer:contents", "after %s: %s[%d] = %d, reference %d (size %d)", after, nm, (int)i, (int)p[i], mm[i], (int)mm.size());
      else
        mm[i] = p[i]; // bytes exposed by a growing resize are unspecified once, then they are ordinary content
#ifdef VF_INTERNALS
    bool owned = b.buffer != 0;
    if(owned)
    {
      VF_CHECK(p[mm.size()] == 0, "C08:Buffer:terminator", "after %s: %s owns its storage but the byte after its %d data bytes is %d, not 0", after, nm, (int)mm.size(), (int)p[mm.size()]);
      VF_CHECK(b.bufferStart >= b.buffer && b.bufferEnd <= b.buffer + b._capacity, "C08:Buffer:window", "after %s: window of %s lies outside its allocation (head %d, size %d, capacity %d)", after, nm,
        (int)(b.bufferStart - b.buffer), (int)b.size(), (int)b._capacity);
      vf::hit("terminator_checks");
    }
    else if(!mm.empty())
    {
      int r = -1;
      for(int k = 0; k < 2; ++k) if(p >= range[k] && p + mm.size() <= range[k] + RANGE_LEN) r = k;
      VF_CHECK(r >= 0, "C08:Buffer:window", "after %s: %s does not own storage and its window is not inside an attached range", after, nm);
      vf::hit("attached_states");
    }
#endif
    VF_CHECK(b.size() <= b.capacity() || b.buffer == 0, "C08:Buffer:capacity", "after %s: %s.size() %d > capacity() %d", after, nm, (int)b.size(), (int)b.capacity());
  }

  void verify(const char* after)
  {
    verifyOne(0, after);
    verifyOne(1, after);
    bool eq = m[0].bytes == m[1].bytes;
    VF_CHECK((*v[0] == *v[1]) == eq && (*v[0] != *v[1]) == !eq, "C08:Buffer:equality", "after %s: A==B gives %d, reference %d", after, (int)(*v[0] == *v[1]), (int)eq);
  }

  std::string canon()
  {
    std::string s = "Buffer";
    for(int w = 0; w < 2; ++w)
    {
#ifdef VF_INTERNALS
      Buffer& b = *v[w];
      int att = -1; int off = 0;
      for(int r = 0; r < 2; ++r) if(!b.buffer && b.bufferStart >= range[r] && b.bufferStart <= range[r] + RANGE_LEN) { att = r; off = (int)(b.bufferStart - range[r]); }
      s += vf::fmt("|%s own%d head%d size%d cap%d att%d off%d", w ? "B" : "A", b.buffer ? 1 : 0, b.buffer ? (int)(b.bufferStart - b.buffer) : 0, (int)b.size(), (int)b._capacity, att, off);
#else
      s += vf::fmt("|size%d cap%d att%d:", (int)v[w]->size(), (int)v[w]->capacity(), m[w].attached);
      for(size_t i = 0; i < m[w].bytes.size(); ++i) s += vf::fmt("%d,", m[w].bytes[i]);
#endif
    }
    return s;
  }

  void finish()
  {
    LIB(delete v[0]); LIB(delete v[1]);
    v[0] = v[1] = 0;
    ::free(range[0]); ::free(range[1]);
    VF_CHECK(vf::ledger().live_blocks == 0, "C08:Buffer:memory-leak", "%lld heap block(s) still allocated after both buffers were destroyed", vf::ledger().live_blocks);
  }
};

int main(int argc, char** argv)
{
  vf::std_init(argc, argv);
  Cfg c;
  c.maxSize = (int)vf::argll(argc, argv, "--maxsize", 6);
  return vf::bfs_main<H, Cfg>(argc, argv, c, vf::fmt("Buffer maxsize=%d", c.maxSize), 64);
}
