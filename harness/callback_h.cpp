// C12: signals/slots under re-entrancy.  Every program is a choice sequence: top-level steps and, inside every slot
// invocation, a reaction chosen from the same menu (connect / disconnect / emit / destroy listener / destroy emitter).
// The model runs in lockstep: every invocation is compared as it happens.
#define VF_LEDGER
#include <nstd/Callback.hpp>
#include "engine/choice.hpp"
#include <string>

#define LIB(...) do { vf::Track t_; __VA_ARGS__; } while(0)

struct Cfg { int NE, NS, NL, NK, maxTop, maxReact, maxNest, maxDup; };
static Cfg cfg;

struct Em; struct Li;
static void onSlot(Li* self, int sig, int k, int arg);

// The library has one emit / connect overload per number of signal parameters (0..8): the two signals of the harness take
// VF_ARITY_A and VF_ARITY_B int parameters (default 0 and 1), and the check builds one binary per pair.
#ifndef VF_ARITY_A
#define VF_ARITY_A 0
#endif
#ifndef VF_ARITY_B
#define VF_ARITY_B 1
#endif
#define VF_P0
#define VF_P1 int a1
#define VF_P2 int a1, int
#define VF_P3 int a1, int, int
#define VF_P4 int a1, int, int, int
#define VF_P5 int a1, int, int, int, int
#define VF_P6 int a1, int, int, int, int, int
#define VF_P7 int a1, int, int, int, int, int, int
#define VF_P8 int a1, int, int, int, int, int, int, int
#define VF_C0
#define VF_C1 , x
#define VF_C2 , x, 2
#define VF_C3 , x, 2, 3
#define VF_C4 , x, 2, 3, 4
#define VF_C5 , x, 2, 3, 4, 5
#define VF_C6 , x, 2, 3, 4, 5, 6
#define VF_C7 , x, 2, 3, 4, 5, 6, 7
#define VF_C8 , x, 2, 3, 4, 5, 6, 7, 8
#define VF_F0 0
#define VF_F1 a1
#define VF_F2 a1
#define VF_F3 a1
#define VF_F4 a1
#define VF_F5 a1
#define VF_F6 a1
#define VF_F7 a1
#define VF_F8 a1
#define VF_CAT_(a, b) a##b
#define VF_CAT(a, b) VF_CAT_(a, b)
#define PARAMS_A VF_CAT(VF_P, VF_ARITY_A)
#define PARAMS_B VF_CAT(VF_P, VF_ARITY_B)
#define CARGS_A VF_CAT(VF_C, VF_ARITY_A)
#define CARGS_B VF_CAT(VF_C, VF_ARITY_B)
#define FIRST_A VF_CAT(VF_F, VF_ARITY_A)
#define FIRST_B VF_CAT(VF_F, VF_ARITY_B)
struct Em : public Callback::Emitter
{
  int id;
  void sigA(PARAMS_A) {}
  void sigB(PARAMS_B) {}
  void fire(int s, int x) { (void)x; if(s == 0) emit(&Em::sigA CARGS_A); else emit(&Em::sigB CARGS_B); }
};
// When both signals have the same parameter list, the SAME slots s1/s2 serve both of them (one slot connected to two signals of
// one emitter); the slot cannot know then which signal invoked it and reports -1: the model takes the emission in progress.
#if VF_ARITY_A == VF_ARITY_B
#define VF_SHARED_SLOTS 1
#define SLOT_SIG -1
#else
#define VF_SHARED_SLOTS 0
#define SLOT_SIG 0
#endif
struct Li : public Callback::Listener
{
  int id;
  void s1(PARAMS_A) { onSlot(this, SLOT_SIG, 0, FIRST_A); }
  void s2(PARAMS_A) { onSlot(this, SLOT_SIG, 1, FIRST_A); }
  void t1(PARAMS_B) { onSlot(this, 1, 0, FIRST_B); }
  void t2(PARAMS_B) { onSlot(this, 1, 1, FIRST_B); }
};

struct Conn { int id, e, s, l, k; bool live; };
struct Frame { int e, s; std::vector<int> snapshot; size_t cursor; bool dead, probe; int arg; };

struct World
{
  vf::Chooser* ch;
  Em* em[2]; Li* li[3];
  std::vector<Conn> conns;
  std::vector<Frame> stack;
  int reactions;
  std::string trace;
  bool failed;
  std::string failKey, failMsg;
  bool tracing;

  World() : ch(0), reactions(0), failed(false), tracing(false) { for(int i = 0; i < 2; ++i) em[i] = 0; for(int i = 0; i < 3; ++i) li[i] = 0; }

  void fail(const std::string& key, const std::string& msg) { if(!failed) { failed = true; failKey = key; failMsg = msg; } }

  std::vector<int> liveConns(int e, int s) const { std::vector<int> r; for(size_t i = 0; i < conns.size(); ++i) if(conns[i].live && conns[i].e == e && conns[i].s == s) r.push_back(conns[i].id); return r; }
  int countLive(int e, int s, int l, int k) const { int n = 0; for(size_t i = 0; i < conns.size(); ++i) if(conns[i].live && conns[i].e == e && conns[i].s == s && conns[i].l == l && conns[i].k == k) ++n; return n; }

  // ------------------------------------------------------------ actions
  struct Act { int kind, e, s, l, k; };   // kind: 0 nothing/stop, 1 connect, 2 disconnect, 3 emit, 4 destroy listener, 5 destroy emitter
  std::vector<Act> menu(bool reaction)
  {
    std::vector<Act> m;
    Act none = {0, 0, 0, 0, 0}; m.push_back(none);
    for(int e = 0; e < cfg.NE; ++e) if(em[e]) for(int s = 0; s < cfg.NS; ++s) for(int l = 0; l < cfg.NL; ++l) if(li[l]) for(int k = 0; k < cfg.NK; ++k)
    {
      if(countLive(e, s, l, k) < cfg.maxDup) { Act a = {1, e, s, l, k}; m.push_back(a); }
      if(countLive(e, s, l, k) > 0) { Act a = {2, e, s, l, k}; m.push_back(a); }
    }
    if((int)stack.size() < cfg.maxNest) for(int e = 0; e < cfg.NE; ++e) if(em[e]) for(int s = 0; s < cfg.NS; ++s) { Act a = {3, e, s, 0, 0}; m.push_back(a); }
    for(int l = 0; l < cfg.NL; ++l) if(li[l]) { Act a = {4, 0, 0, l, 0}; m.push_back(a); }
    for(int e = 0; e < cfg.NE; ++e) if(em[e]) { Act a = {5, e, 0, 0, 0}; m.push_back(a); }
    (void)reaction;
    return m;
  }
  static std::string actName(const Act& a)
  {
    static const char* sg[] = {"sigA", "sigB"};
    switch(a.kind)
    {
    case 1: return vf::fmt("connect(E%d.%s -> L%d.slot%d)", a.e, sg[a.s], a.l, a.k);
    case 2: return vf::fmt("disconnect(E%d.%s -> L%d.slot%d)", a.e, sg[a.s], a.l, a.k);
    case 3: return vf::fmt("emit(E%d.%s)", a.e, sg[a.s]);
    case 4: return vf::fmt("delete L%d", a.l);
    case 5: return vf::fmt("delete E%d", a.e);
    }
    return "nothing";
  }

  void doConnect(const Act& a)
  {
    Conn c = {(int)conns.size(), a.e, a.s, a.l, a.k, true}; conns.push_back(c);
    if(a.s == 0) { if(a.k == 0) LIB(Callback::connect(em[a.e], &Em::sigA, li[a.l], &Li::s1)); else LIB(Callback::connect(em[a.e], &Em::sigA, li[a.l], &Li::s2)); }
#if VF_SHARED_SLOTS
    else { if(a.k == 0) LIB(Callback::connect(em[a.e], &Em::sigB, li[a.l], &Li::s1)); else LIB(Callback::connect(em[a.e], &Em::sigB, li[a.l], &Li::s2)); }
#else
    else { if(a.k == 0) LIB(Callback::connect(em[a.e], &Em::sigB, li[a.l], &Li::t1)); else LIB(Callback::connect(em[a.e], &Em::sigB, li[a.l], &Li::t2)); }
#endif
  }
  void doDisconnect(const Act& a)
  {
    // the library removes the oldest matching connection
    for(size_t i = 0; i < conns.size(); ++i) if(conns[i].live && conns[i].e == a.e && conns[i].s == a.s && conns[i].l == a.l && conns[i].k == a.k) { conns[i].live = false; break; }
    if(a.s == 0) { if(a.k == 0) LIB(Callback::disconnect(em[a.e], &Em::sigA, li[a.l], &Li::s1)); else LIB(Callback::disconnect(em[a.e], &Em::sigA, li[a.l], &Li::s2)); }
#if VF_SHARED_SLOTS
    else { if(a.k == 0) LIB(Callback::disconnect(em[a.e], &Em::sigB, li[a.l], &Li::s1)); else LIB(Callback::disconnect(em[a.e], &Em::sigB, li[a.l], &Li::s2)); }
#else
    else { if(a.k == 0) LIB(Callback::disconnect(em[a.e], &Em::sigB, li[a.l], &Li::t1)); else LIB(Callback::disconnect(em[a.e], &Em::sigB, li[a.l], &Li::t2)); }
#endif
  }
  void doEmit(int e, int s, bool probe)
  {
    Frame f; f.e = e; f.s = s; f.cursor = 0; f.dead = false; f.probe = probe; f.arg = 40 + (int)stack.size();
    bool inherited = false;
    for(size_t i = 0; i < stack.size(); ++i) if(stack[i].e == e && stack[i].s == s && !stack[i].dead) { f.snapshot = stack[i].snapshot; inherited = true; break; }
    if(!inherited) f.snapshot = liveConns(e, s);
    stack.push_back(f);
    Em* target = em[e];
    int arg = f.arg;
    LIB(target->fire(s, arg));
    Frame& top = stack.back();
    if(!top.dead)
      for(size_t i = top.cursor; i < top.snapshot.size(); ++i)
        if(conns[top.snapshot[i]].live)
        { fail("C12:missed-invocation", vf::fmt("emission of E%d.sig%c returned without invoking the connected slot L%d.slot%d", e, 'A' + s, conns[top.snapshot[i]].l, conns[top.snapshot[i]].k)); break; }
    stack.pop_back();
  }
  void doDestroyL(int l)
  {
    for(size_t i = 0; i < conns.size(); ++i) if(conns[i].l == l) conns[i].live = false;
    Li* p = li[l]; li[l] = 0;
    LIB(delete p);
  }
  void doDestroyE(int e)
  {
    for(size_t i = 0; i < conns.size(); ++i) if(conns[i].e == e) conns[i].live = false;
    for(size_t i = 0; i < stack.size(); ++i) if(stack[i].e == e) stack[i].dead = true;
    Em* p = em[e]; em[e] = 0;
    LIB(delete p);
  }
  void perform(const Act& a)
  {
    switch(a.kind)
    {
    case 1: doConnect(a); break;
    case 2: doDisconnect(a); break;
    case 3: doEmit(a.e, a.s, false); break;
    case 4: doDestroyL(a.l); break;
    case 5: doDestroyE(a.e); break;
    }
  }

  // ------------------------------------------------------------ invocation from the library
  void invoked(int lid, int sig, int k, int arg)
  {
    if(failed) return;
    if(stack.empty()) { fail("C12:invocation-outside-emission", vf::fmt("L%d.slot%d invoked although no emission is in progress", lid, k)); return; }
    Frame& f = stack.back();
    if(sig < 0) sig = f.s;
    if(f.dead) { fail("C12:invoked-after-emitter-destroyed", vf::fmt("L%d.slot%d invoked by an emission whose emitter E%d has been destroyed", lid, k, f.e)); return; }
    if(sig != f.s || ((sig == 1 ? VF_ARITY_B : VF_ARITY_A) > 0 && arg != f.arg)) { fail("C12:wrong-signal", vf::fmt("L%d.slot%d invoked for signal %d with argument %d, emission in progress is E%d.sig%c(%d)", lid, k, sig, arg, f.e, 'A' + f.s, f.arg)); return; }
    // next expected: first snapshot entry at or after the cursor that is still connected
    size_t i = f.cursor;
    while(i < f.snapshot.size() && !conns[f.snapshot[i]].live) ++i;
    if(i >= f.snapshot.size())
    {
      // classify: was it connected at all?
      bool everConn = false, liveNow = false;
      for(size_t q = 0; q < conns.size(); ++q) if(conns[q].e == f.e && conns[q].s == f.s && conns[q].l == lid && conns[q].k == k) { everConn = true; if(conns[q].live) liveNow = true; }
      fail(liveNow ? "C12:invoked-connected-during-emission" : everConn ? "C12:invoked-after-disconnect" : "C12:invoked-never-connected",
        vf::fmt("L%d.slot%d invoked by E%d.sig%c although no connected slot of the emission's snapshot is pending", lid, k, f.e, 'A' + f.s));
      return;
    }
    const Conn& c = conns[f.snapshot[i]];
    if(c.l != lid || c.k != k) { fail("C12:wrong-order-or-slot", vf::fmt("L%d.slot%d invoked, expected next L%d.slot%d (connection order)", lid, k, c.l, c.k)); return; }
    f.cursor = i + 1;
    if(f.probe) return;
    vf::hit("slot_invocations");
    // reaction
    if(reactions >= cfg.maxReact) return;
    std::vector<Act> m = menu(true);
    int c2 = ch->choose((int)m.size());
    if(c2 == 0) return;
    ++reactions;
    vf::hit("reactions");
    if(tracing) printf("    [in L%d.slot%d] %s\n", lid, k, actName(m[c2]).c_str());
    trace += " {in L" + vf::fmt("%d", lid) + ".slot" + vf::fmt("%d", k) + ": " + actName(m[c2]) + "}";
    perform(m[c2]);
  }

  // ------------------------------------------------------------ bookkeeping comparison after a top-level step
  void probeAll()
  {
    for(int e = 0; e < cfg.NE && !failed; ++e) if(em[e]) for(int s = 0; s < cfg.NS && !failed; ++s) doEmit(e, s, true);
#ifdef VF_INTERNALS
    if(failed) return;
    for(int e = 0; e < cfg.NE; ++e) if(em[e]) for(int s = 0; s < cfg.NS; ++s)
    {
      Callback::MemberFuncPtr key = s == 0 ? Callback::MemberFuncPtr(&Em::sigA) : Callback::MemberFuncPtr(&Em::sigB);
      std::vector<int> want = liveConns(e, s);
      size_t n = 0;
      Map<Callback::MemberFuncPtr, Callback::Emitter::SignalData>::Iterator it = em[e]->signalData.find(key);
      if(it != em[e]->signalData.end())
      {
        if(it->activation) { fail("C12:bookkeeping-emitter", "an emission is still registered as active after it returned"); return; }
        for(List<Callback::Emitter::Slot>::Iterator j = it->slots.begin(); j != it->slots.end(); ++j, ++n)
        {
          if(j->state != Callback::Emitter::Slot::connected) { fail("C12:bookkeeping-emitter", vf::fmt("E%d.sig%c keeps a slot in state %d after all emissions ended", e, 'A' + s, (int)j->state)); return; }
          if(n >= want.size() || j->receiver != (Callback::Listener*)li[conns[want[n]].l]) { fail("C12:bookkeeping-emitter", vf::fmt("slot list of E%d.sig%c does not describe the live connections", e, 'A' + s)); return; }
        }
      }
      if(n != want.size()) { fail("C12:bookkeeping-emitter", vf::fmt("E%d.sig%c lists %d slots, %d connections are live", e, 'A' + s, (int)n, (int)want.size())); return; }
    }
    for(int l = 0; l < cfg.NL; ++l) if(li[l])
    {
      size_t have = 0, want = 0;
      for(Map<Callback::Emitter*, List<Callback::Listener::Signal> >::Iterator it = li[l]->slotData.begin(); it != li[l]->slotData.end(); ++it)
      {
        bool alive = false; for(int e = 0; e < cfg.NE; ++e) if((Callback::Emitter*)em[e] == it.key() && em[e]) alive = true;
        if(!alive && it->size()) { fail("C12:bookkeeping-listener", vf::fmt("L%d still lists connections to a destroyed emitter", l)); return; }
        have += it->size();
      }
      for(size_t i = 0; i < conns.size(); ++i) if(conns[i].live && conns[i].l == l) ++want;
      if(have != want) { fail("C12:bookkeeping-listener", vf::fmt("L%d lists %d connections, %d are live", l, (int)have, (int)want)); return; }
      // ... and they name the right signals: the listener's destructor finds the emitter's entries through these records
      for(int e = 0; e < cfg.NE; ++e) if(em[e]) for(int s = 0; s < cfg.NS; ++s)
      {
        Callback::MemberFuncPtr key = s == 0 ? Callback::MemberFuncPtr(&Em::sigA) : Callback::MemberFuncPtr(&Em::sigB);
        size_t haveS = 0, wantS = 0;
        Map<Callback::Emitter*, List<Callback::Listener::Signal> >::Iterator it = li[l]->slotData.find((Callback::Emitter*)em[e]);
        if(it != li[l]->slotData.end())
          for(List<Callback::Listener::Signal>::Iterator j = it->begin(); j != it->end(); ++j) if(j->signal == key) ++haveS;
        for(size_t i = 0; i < conns.size(); ++i) if(conns[i].live && conns[i].l == l && conns[i].e == e && conns[i].s == s) ++wantS;
        if(haveS != wantS) { fail("C12:bookkeeping-listener", vf::fmt("L%d lists %d connections to E%d.sig%c, %d are live", l, (int)haveS, e, 'A' + s, (int)wantS)); return; }
      }
    }
#endif
  }

  // ------------------------------------------------------------ one program
  void run(vf::Chooser& c, bool trc)
  {
    ch = &c; tracing = trc;
    vf::ledger().live_blocks = 0; vf::ledger().live_bytes = 0;
    for(int e = 0; e < cfg.NE; ++e) { LIB(em[e] = new Em()); em[e]->id = e; }
    for(int l = 0; l < cfg.NL; ++l) { LIB(li[l] = new Li()); li[l]->id = l; }
    for(int step = 0; step < cfg.maxTop && !failed; ++step)
    {
      std::vector<Act> m = menu(false);
      int c2 = c.choose((int)m.size());
      if(c2 == 0) break; // stop
      if(trc) printf("  %s\n", actName(m[c2]).c_str());
      trace += (trace.empty() ? "" : "; ") + actName(m[c2]);
      vf::hit("top_level_steps");
      perform(m[c2]);
      if(!failed) probeAll();
    }
    if(!failed)
    { // teardown in one of two orders
      int order = c.choose(2);
      if(order == 0) { for(int e = 0; e < cfg.NE; ++e) if(em[e]) doDestroyE(e); for(int l = 0; l < cfg.NL; ++l) if(li[l]) doDestroyL(l); }
      else { for(int l = 0; l < cfg.NL; ++l) if(li[l]) doDestroyL(l); for(int e = 0; e < cfg.NE; ++e) if(em[e]) doDestroyE(e); }
      if(vf::ledger().live_blocks != 0) fail("C12:leak", vf::fmt("%lld heap block(s) still allocated after all emitters and listeners were destroyed", vf::ledger().live_blocks));
    }
  }
};

static World* g_world;
static void onSlot(Li* self, int sig, int k, int arg)
{
  vf::Untrack untrack;                   // harness bookkeeping is not library memory
  int lid = self->id;                    // ASan: use after free if the listener has been destroyed
  World* w = g_world;
  if(lid < 0 || lid >= 3 || w->li[lid] != self) { w->fail("C12:invoked-destroyed-listener", vf::fmt("a slot of a destroyed listener (id %d) was invoked", lid)); return; }
  w->invoked(lid, sig, k, arg);
}

struct Runner
{
  std::map<std::string, int> keys;
  void operator()(vf::Chooser& ch, bool trace)
  {
    World w; g_world = &w;
    w.run(ch, trace);
    if(w.reactions >= 1) vf::hit("programs_with_reentrant_action");
    if(w.failed)
    {
      if(++keys[w.failKey] <= 3) vf::violation(w.failKey, "choices=" + ch.path() + " program: " + w.trace, w.failMsg);
      vf::hit("violating_executions");
      if(trace) printf("REPRODUCED %s: %s\n", w.failKey.c_str(), w.failMsg.c_str());
    }
    else if(w.reactions == 2 && vf::nsamples() < 4) vf::sample("choices=" + ch.path() + " program: " + w.trace, 4);
    // objects of a failed run are abandoned
  }
};

int main(int argc, char** argv)
{
  vf::std_init(argc, argv);
  cfg.NE = (int)vf::argll(argc, argv, "--emitters", 1);
  cfg.NS = (int)vf::argll(argc, argv, "--signals", 1);
  cfg.NL = (int)vf::argll(argc, argv, "--listeners", 2);
  cfg.NK = (int)vf::argll(argc, argv, "--slots", 1);
  cfg.maxTop = (int)vf::argll(argc, argv, "--top", 3);
  cfg.maxReact = (int)vf::argll(argc, argv, "--reactions", 2);
  cfg.maxNest = (int)vf::argll(argc, argv, "--nest", 3);
  cfg.maxDup = (int)vf::argll(argc, argv, "--dup", 1);
  Runner r;
  vf::dfs(argc, argv, r, "callback");
  return 0;
}
