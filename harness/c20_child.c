/* helper child for C20: echoes what it was given.
   child echoargs ...          -> stdout: "ARGC n\n" + per arg "ARG <len>:<bytes>\n" + "ENV VF_A=<v>|<unset>\n" "ENV VF_B=..." "ENV HOME=<set|unset>\n"
   child io <out> <err> <exit> <readstdin> [<delay ms> [o|e|x]] -> reads stdin to EOF if readstdin=1, stdout: "IN <len> <sum>\n" + <out> pattern bytes, stderr: <err> pattern bytes, exit code */
#include <stdio.h>
#include <stdlib.h>
#include <string.h>
#include <unistd.h>
static void env(const char* n) { const char* v = getenv(n); printf("ENV %s=%s\n", n, v ? v : "<unset>"); }
int main(int argc, char** argv)
{
  if(argc >= 2 && strcmp(argv[1], "io") == 0 && argc >= 6)
  {
    long out = atol(argv[2]), err = atol(argv[3]); int code = atoi(argv[4]);
    unsigned long len = 0, sum = 0;
    if(atoi(argv[5]))
    {
      unsigned char buf[65536]; ssize_t n;
      while((n = read(0, buf, sizeof(buf))) > 0) { for(ssize_t i = 0; i < n; ++i) sum = sum * 31 + buf[i]; len += (unsigned long)n; }
    }
    if(argc >= 7) usleep((useconds_t)atol(argv[6]) * 1000);   /* optional: write only after <delay> ms */
    char mode = argc >= 8 ? argv[7][0] : 'o';   /* o: header to stdout; e: header to stderr; x: no header, exit code = (sum + len) % 251 */
    char head[64]; int hl = snprintf(head, sizeof(head), "IN %lu %lu\n", len, sum);
    if(mode == 'x') return (int)((sum + len) % 251);
    if(write(mode == 'e' ? 2 : 1, head, hl) != hl) return 99;
    for(long i = 0; i < out;) { unsigned char buf[4096]; long k = out - i < 4096 ? out - i : 4096; for(long j = 0; j < k; ++j) buf[j] = (unsigned char)('a' + (i + j) % 23); if(write(1, buf, k) != k) return 98; i += k; }
    for(long i = 0; i < err;) { unsigned char buf[4096]; long k = err - i < 4096 ? err - i : 4096; for(long j = 0; j < k; ++j) buf[j] = (unsigned char)('A' + (i + j) % 19); if(write(2, buf, k) != k) return 97; i += k; }
    return code;
  }
  printf("ARGC %d\n", argc);
  for(int i = 0; i < argc; ++i) { printf("ARG %zu:", strlen(argv[i])); fwrite(argv[i], 1, strlen(argv[i]), stdout); printf("\n"); }
  env("VF_A"); env("VF_B");
  printf("ENV HOME=%s\n", getenv("HOME") ? "set" : "unset");
  return 0;
}
