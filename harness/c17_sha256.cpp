// C17: SHA-256 / HMAC-SHA-256 against Python hashlib/hmac (table written by the
// driver) for every length / chunking shape within the tier's bounds.
#define VF_LEDGER
#include "engine/enum.hpp"
#include <nstd/Crypto/Sha256.hpp>

static std::string gen(int g, size_t n, unsigned seed)
{
  std::string s(n, '\0');
  unsigned x = 12345u + seed;
  for(size_t i = 0; i < n; ++i)
  {
    switch(g)
    {
    case 0: s[i] = 0; break;
    case 1: s[i] = (char)0xff; break;
    case 2: s[i] = (char)((i + seed) & 0xff); break;
    default: x = x * 1103515245u + 12345u; s[i] = (char)((x >> 16) & 0xff); break;
    }
  }
  return s;
}

static std::string dig(const byte (&d)[32]) { return vf::hex(std::string((const char*)d, 32)); }

static std::map<std::string, std::string> table;
static void loadTable(const char* path)
{
  FILE* f = fopen(path, "r");
  if(!f) { perror("table"); _exit(3); }
  char k[128], v[128];
  while(fscanf(f, "%127s %127s", k, v) == 2) table[k] = v;
  fclose(f);
}

static std::string hashSplit(const std::string& m, size_t a, size_t b)
{
  // three exactly sized chunks [0,a) [a,b) [b,n)
  Sha256 h;
  vf::Exact c1(m.data(), a), c2(m.data() + a, b - a), c3(m.data() + b, m.size() - b);
  h.update((const byte*)c1.p, a);
  h.update((const byte*)c2.p, b - a);
  h.update((const byte*)c3.p, m.size() - b);
  byte d[32];
  h.finalize(d);
  return dig(d);
}

int main(int argc, char** argv)
{
  vf::std_init(argc, argv);
  vf::Shard sh; sh.init(argc, argv);
  loadTable(vf::arg(argc, argv, "--table"));
  int maxLen = (int)vf::argll(argc, argv, "--maxlen", 300);
  int max3 = (int)vf::argll(argc, argv, "--max3", 130);
  int maxKey = (int)vf::argll(argc, argv, "--maxkey", 200);
  std::vector<int> lens;
  for(int i = 0; i <= maxLen; ++i) lens.push_back(i);
  const char* extra = vf::arg(argc, argv, "--extra", "");
  for(const char* p = extra; *p;) { lens.push_back(atoi(p)); while(*p && *p != ',') ++p; if(*p) ++p; }
  static const int mlens[] = {0, 1, 55, 56, 63, 64, 65, 119, 120, 300};

  for(int g = 0; g < 4; ++g)
    for(size_t li = 0; li < lens.size(); ++li)
    {
      if(!sh.take()) continue;
      int L = lens[li];
      std::string cs = vf::fmt("sha gen=%d len=%d", g, L);
      vf::crumb("sha256", sh.token(), cs);
      vf::watchdog_arm(120000);
      std::string m = gen(g, L, 0);
      std::string want = table[vf::fmt("H:%d:%d", g, L)];
      if(want.empty()) { fprintf(stderr, "no table entry for %s\n", cs.c_str()); _exit(3); }
      byte d[32];
      {
        vf::Exact e(m.data(), m.size());
        Sha256::hash((const byte*)e.p, L, d);
      }
      vf::hit("oneshot");
      if(dig(d) != want)
      {
        vf::violation("sha256.oneshot", cs, "one-shot digest " + dig(d) + " != hashlib " + want);
        continue;
      }
      if(L > 0) vf::hit("distinct_nontrivial");
      // every two-way split (bounded for the few very long extras: stride so that <= 700 splits)
      int step2 = L > 700 ? L / 600 : 1;
      for(int a = 0; a <= L; a += step2)
      {
        vf::hit("twoway");
        if(a > 0 && a < L) vf::hit("distinct_nontrivial");
        std::string got = hashSplit(m, a, a);
        if(got != want) { vf::violation("sha256.split2", cs + vf::fmt(" split=%d", a), "chunked digest " + got + " != " + want); break; }
      }
      if(L > maxLen && step2 > 1) vf::hit("twoway_strided_lengths");
      if(L <= max3)
      {
        bool bad = false;
        for(int a = 0; a <= L && !bad; ++a)
          for(int b = a; b <= L; ++b)
          {
            vf::hit("threeway");
            if(a > 0 && b > a && b < L) vf::hit("distinct_nontrivial");
            std::string got = hashSplit(m, a, b);
            if(got != want) { vf::violation("sha256.split3", cs + vf::fmt(" split=%d,%d", a, b), "chunked digest " + got + " != " + want); bad = true; break; }
          }
      }
      // reuse after finalize and after reset in the middle of another message
      {
        Sha256 h;
        std::string other = gen(3, (L * 7 + 13) % 150, 99);
        h.update((const byte*)other.data(), other.size());
        byte t[32];
        h.finalize(t);
        h.update((const byte*)m.data(), m.size());
        h.finalize(t);
        vf::hit("reuse_after_finalize");
        if(dig(t) != want) vf::violation("sha256.reuse.finalize", cs, "hasher reused after finalize gives " + dig(t));
        h.update((const byte*)other.data(), other.size());
        h.reset();
        h.update((const byte*)m.data(), m.size());
        h.finalize(t);
        vf::hit("reuse_after_reset");
        if(dig(t) != want) vf::violation("sha256.reuse.reset", cs, "hasher reused after reset gives " + dig(t));
      }
      vf::sample(cs + " -> " + want, 3);
    }

  for(int g = 0; g < 4; ++g)
    for(int kl = 0; kl <= maxKey; ++kl)
    {
      if(!sh.take()) continue;
      for(size_t mi = 0; mi < sizeof(mlens) / sizeof(*mlens); ++mi)
      {
        int ml = mlens[mi];
        std::string cs = vf::fmt("hmac gen=%d keylen=%d msglen=%d", g, kl, ml);
        vf::crumb("hmac", sh.token(), cs);
        vf::watchdog_arm(60000);
        std::string key = gen(g, kl, 7), msg = gen(g, ml, 3);
        vf::Exact ek(key.data(), key.size()), em(msg.data(), msg.size());
        byte d[32];
        Sha256::hmac((const byte*)ek.p, kl, (const byte*)em.p, ml, d);
        vf::hit("hmac");
        vf::hit("distinct_nontrivial");
        std::string want = table[vf::fmt("M:%d:%d:%d", g, kl, ml)];
        if(want.empty()) { fprintf(stderr, "no table entry for %s\n", cs.c_str()); _exit(3); }
        if(dig(d) != want) vf::violation("sha256.hmac", cs, "hmac " + dig(d) + " != python hmac " + want);
        else if(kl == 65 && ml == 1) vf::sample(cs + " -> " + want, 6);
      }
    }
  // very long messages of zero bytes, fed in chunks to one hasher: the 64-bit length field and the byte counter (512 MiB is 2^32 bits)
  {
    const char* huge = vf::arg(argc, argv, "--huge", "");
    std::string block(1 << 20, '\0');
    for(const char* p = huge; *p;)
    {
      unsigned long long L = strtoull(p, 0, 10); while(*p && *p != ',') ++p; if(*p) ++p;
      for(int chunking = 0; chunking < 2; ++chunking)
      {
        if(!sh.take()) continue;
        std::string cs = vf::fmt("sha zeros len=%llu chunks of %s", L, chunking ? "1000003 bytes" : "1 MiB");
        vf::crumb("sha256", sh.token(), cs);
        vf::watchdog_arm(1800000);
        size_t step = chunking ? 1000003 : block.size();
        Sha256 h;
        for(unsigned long long done = 0; done < L;) { size_t n = (size_t)std::min<unsigned long long>(step, L - done); h.update((const byte*)block.data(), n); done += n; }
        byte d[32]; h.finalize(d);
        std::string want = table[vf::fmt("Z:%llu", L)];
        if(want.empty()) { fprintf(stderr, "no table entry for %s\n", cs.c_str()); _exit(3); }
        vf::hit("huge"); vf::hit("distinct_nontrivial");
        if(dig(d) != want) vf::violation("sha256.long-message", cs, "digest " + dig(d) + " != hashlib " + want);
      }
    }
  }
  vf::watchdog_disarm();
  vf::emit_counters();
  return 0;
}
