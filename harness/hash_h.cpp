// History harness for HashMap (-DVF_HM), HashSet (-DVF_HS), PoolMap (-DVF_PM).
// Two variables A and B.  Serves C02 (reference agreement), C04, C05.
#define VF_LEDGER
#include <nstd/HashMap.hpp>
#include <nstd/HashSet.hpp>
#include <nstd/PoolMap.hpp>
#include "engine/histbfs.hpp"
#include "engine/tracked.hpp"
#include "harness/pool_canon.hpp"
#include <algorithm>

using vf::Tracked;
#define PTAG (std::string(ptag))
#define LIB(...) do { vf::Track t_; __VA_ARGS__; } while(0)

// value type of PoolMap: constructed in place, never copied or moved
struct PVal
{
  Tracked t;
  PVal() : t(0) {}
private:
  PVal(const PVal&);
  PVal& operator=(const PVal&);
};

#if defined(VF_HM)
typedef HashMap<Tracked, Tracked> C;
#define CNAME "HashMap"
static inline int valOf(C::Iterator& it) { return (*it).get(); }
static inline const void* vaddrOf(C::Iterator& it) { return &*it; }
#elif defined(VF_HS)
typedef HashSet<Tracked> C;
#define CNAME "HashSet"
static inline int valOf(C::Iterator& it) { return 0; }
static inline const void* vaddrOf(C::Iterator& it) { return &*it; }
#else
typedef PoolMap<Tracked, PVal> C;
#define CNAME "PoolMap"
static inline int valOf(C::Iterator& it) { return (*it).t.get(); }
static inline const void* vaddrOf(C::Iterator& it) { return &*it; }
#endif
#if defined(VF_HS)
static inline int keyOf(C::Iterator& it) { return (*it).get(); }
static inline const void* kaddrOf(C::Iterator& it) { return &*it; }
#else
static inline int keyOf(C::Iterator& it) { return it.key().get(); }
static inline const void* kaddrOf(C::Iterator& it) { return &it.key(); }
#endif

struct Cfg
{
  int K;
  int capacity;   // 0 = default constructor
  int capacityB;  // capacity of the second variable; -1 = same as the first
  int hashMode;
  bool selfOps;
  bool twoVars;   // operations involving the second variable B (swap, copy, assignment, set append/remove)
};

struct Ent { int key, tag; const void* kaddr; const void* vaddr; };
typedef std::vector<Ent> Ref;

static void faults()
{
  if(!vf::reg().fault.empty())
  {
    std::string f = vf::reg().fault;
    vf::fail("C04:" CNAME ":" + f.substr(0, f.find(':')), f);
  }
}

struct H
{
  Cfg cfg;
  C* v[2];
  Ref ref[2];
  int nextTag;
  struct Op { int kind, x, y; };
  std::vector<Op> ops;
  bool opsValid;
  const char* ptag;  // property whose oracle is being evaluated: self-referential operations belong to C04
  long long copies0;
  enum { APPEND, PREPEND, INSERT, REMK, REMI, REMF, REMB, CLEAR, SWAP, COPY, ASSIGN_BA, ASSIGN_AB, SETAPPEND, SETREMOVE,
         SELFASSIGN, SELFSWAP, SETAPPENDSELF, SETREMOVESELF, INSOWN, REMVAL, REMOWNKEY };

  C* make(int capacity) { C* c = 0; if(capacity) LIB(c = new C((usize)capacity)); else LIB(c = new C()); return c; }

  H(const Cfg& c) : cfg(c), nextTag(100), opsValid(false), ptag("C02")
  {
    vf::reg().reset();
    vf::reg().hashMode = cfg.hashMode;
    vf::ledger().live_blocks = 0; vf::ledger().live_bytes = 0;
    v[0] = make(cfg.capacity); v[1] = make(cfg.capacityB < 0 ? cfg.capacity : cfg.capacityB);
    faults();
  }

  bool has(int w, int k) const { for(size_t i = 0; i < ref[w].size(); ++i) if(ref[w][i].key == k) return true; return false; }
  int idx(int w, int k) const { for(size_t i = 0; i < ref[w].size(); ++i) if(ref[w][i].key == k) return (int)i; return -1; }
  void add(int kind, int x = 0, int y = 0) { Op o = {kind, x, y}; ops.push_back(o); }

  void buildOps()
  {
    ops.clear();
    int n = (int)ref[0].size();
    for(int k = 0; k < cfg.K; ++k) add(APPEND, k);
#ifndef VF_PM
    for(int k = 0; k < cfg.K; ++k) add(PREPEND, k);
#endif
    for(int p = 0; p <= n; ++p) for(int k = 0; k < cfg.K; ++k) add(INSERT, p, k);
    for(int k = 0; k <= cfg.K; ++k) if(k == cfg.K || has(0, k)) add(REMK, k);
    for(int p = 0; p < n; ++p) add(REMI, p);
    if(n) { add(REMF); add(REMB); }
    add(CLEAR);
    if(cfg.twoVars) { add(SWAP, 0); add(SWAP, 1); }   // both receivers
#ifndef VF_PM
    if(cfg.twoVars) { add(COPY); add(ASSIGN_BA); add(ASSIGN_AB); }
#else
    for(int p = 0; p < n; ++p) add(REMVAL, p);
#endif
#ifdef VF_HS
    if(cfg.twoVars) { add(SETAPPEND); add(SETREMOVE); }
#endif
    if(cfg.selfOps)
    {
#ifndef VF_PM
      add(SELFASSIGN);
#endif
      add(SELFSWAP);
#ifdef VF_HS
      add(SETAPPENDSELF); add(SETREMOVESELF);
#endif
      for(int p = 0; p < n; ++p) add(INSOWN, p);
      for(int p = 0; p < n; ++p) add(REMOWNKEY, p);
    }
    opsValid = true;
  }
  int nops() { if(!opsValid) buildOps(); return (int)ops.size(); }
  static const char* kindName(int k)
  {
    static const char* n[] = {"append", "prepend", "insert", "removeKey", "removeIt", "removeFront", "removeBack", "clear", "swap", "copyConstruct",
      "assignBfromA", "assignAfromB", "appendSet", "removeSet", "selfAssign", "selfSwap", "appendSetSelf", "removeSetSelf", "insertOwnElement", "removeValueRef", "removeOwnKeyRef"};
    return n[k];
  }
  std::string opname(int i)
  {
    if(!opsValid) buildOps();
    const Op& o = ops[i];
    switch(o.kind)
    {
    case APPEND: case PREPEND: case REMK: return vf::fmt("A.%s(%d)", kindName(o.kind), o.x);
    case INSERT: return vf::fmt("A.insert(pos=%d/%d,%d)", o.x, (int)ref[0].size(), o.y);
    case REMI: case INSOWN: case REMVAL: case REMOWNKEY: return vf::fmt("A.%s(pos=%d)", kindName(o.kind), o.x);
    default: return vf::fmt("%s()", kindName(o.kind));
    }
  }

  C::Iterator at(C& c, int p) { C::Iterator it = c.begin(); for(int i = 0; i < p; ++i) ++it; return it; }
  int indexOf(C& c, const C::Iterator& it)
  {
    int i = 0;
    for(C::Iterator j = c.begin(); j != c.end() && i < 300; ++j, ++i) if(j == it) return i;
    return it == c.end() ? i : -1;
  }

  // reference semantics of inserting key k before position p with value tag
  // returns index of the element; isNew tells whether it was added
  int modelInsert(Ref& r, int p, int k, int tag, bool& isNew)
  {
    for(size_t i = 0; i < r.size(); ++i)
      if(r[i].key == k)
      {
#ifdef VF_HM
        r[i].tag = tag;   // HashMap overwrites the value, position kept
#endif
        isNew = false;
        return (int)i;
      }
    Ent e = {k, tag, 0, 0};
    r.insert(r.begin() + p, e);
    isNew = true;
    return p;
  }

  void learn(int w)
  {
    size_t i = 0;
    for(C::Iterator it = v[w]->begin(); it != v[w]->end() && i < ref[w].size(); ++it, ++i)
    { ref[w][i].kaddr = kaddrOf(it); ref[w][i].vaddr = vaddrOf(it); }
  }
  void learnNew(int w)
  {
    size_t i = 0;
    for(C::Iterator it = v[w]->begin(); it != v[w]->end() && i < ref[w].size(); ++it, ++i)
      if(!ref[w][i].kaddr) { ref[w][i].kaddr = kaddrOf(it); ref[w][i].vaddr = vaddrOf(it); }
  }

  void doInsert(int kind, int p, int k)
  {
    C& a = *v[0];
    int tag = nextTag++;
    C::Iterator it;
    bool haveIt = false;
    const void* retAddr = 0;
    Tracked key(k);
#if defined(VF_HM)
    Tracked val(tag);
    if(kind == APPEND) { Tracked* r = 0; LIB(r = &a.append(key, val)); retAddr = r; }
    else if(kind == PREPEND) { Tracked* r = 0; LIB(r = &a.prepend(key, val)); retAddr = r; }
    else { C::Iterator pos = at(a, p); LIB(it = a.insert(pos, key, val)); haveIt = true; }
#elif defined(VF_HS)
    if(kind == APPEND) LIB(a.append(key));
    else if(kind == PREPEND) LIB(a.prepend(key));
    else { C::Iterator pos = at(a, p); LIB(it = a.insert(pos, key)); haveIt = true; }
#else
    bool existed = has(0, k);
    if(kind == APPEND) { PVal* r = 0; LIB(r = &a.append(key)); retAddr = r; if(!existed) r->t.set(tag); }
    else { C::Iterator pos = at(a, p); LIB(it = a.insert(pos, key)); haveIt = true; if(!existed && it != a.end()) (*it).t.set(tag); }
#endif
    faults();
    bool isNew;
    int mp = kind == APPEND ? (int)ref[0].size() : kind == PREPEND ? 0 : p;
    int mi = modelInsert(ref[0], mp, k, tag, isNew);
    if(haveIt)
    {
      VF_CHECK(it != a.end(), PTAG + ":" CNAME ":insert-returned-iterator", "insert returned end()");
      int ri = indexOf(a, it);
      VF_CHECK(ri == mi, PTAG + ":" CNAME ":insert-returned-iterator", "insert(pos=%d,key=%d) returned an iterator to index %d, reference says the element is at %d", p, k, ri, mi);
    }
    if(isNew) learnNew(0);
    if(retAddr)
      VF_CHECK(retAddr == ref[0][mi].vaddr, PTAG + ":" CNAME ":returned-reference", "%s(%d) returned a reference that is not the element's value", kindName(kind), k);
  }

  void apply(int i)
  {
    if(!opsValid) buildOps();
    Op o = ops[i];
    opsValid = false;
    ptag = (o.kind == SELFASSIGN || o.kind == SELFSWAP || o.kind == SETAPPENDSELF || o.kind == SETREMOVESELF || o.kind == INSOWN || o.kind == REMOWNKEY) ? "C04" : "C02";
    vf::hit((std::string("opcalls:") + kindName(o.kind)).c_str());
    C& a = *v[0];
    C& b = *v[1];
    switch(o.kind)
    {
    case APPEND: case PREPEND: doInsert(o.kind, 0, o.x); break;
    case INSERT: doInsert(INSERT, o.x, o.y); break;
    case REMK:
    {
      { Tracked key(o.x); LIB(a.remove(key)); }
      faults();
      int p = idx(0, o.x);
      if(p >= 0) ref[0].erase(ref[0].begin() + p);
      break;
    }
    case REMI: case REMF: case REMB:
    {
      int p = o.kind == REMI ? o.x : o.kind == REMF ? 0 : (int)ref[0].size() - 1;
      C::Iterator it = at(a, p), succ = it, r;
      ++succ;
      if(o.kind == REMI) LIB(r = a.remove(it));
      else if(o.kind == REMF) LIB(r = a.removeFront());
      else LIB(r = a.removeBack());
      faults();
      ref[0].erase(ref[0].begin() + p);
      VF_CHECK(r == succ, PTAG + ":" CNAME ":remove-returned-iterator", "remove at index %d did not return the successor", p);
      break;
    }
#ifdef VF_PM
    case REMVAL:
    {
      C::Iterator it = at(a, o.x);
      PVal& val = *it;
      LIB(a.remove(val));
      faults();
      ref[0].erase(ref[0].begin() + o.x);
      break;
    }
#endif
    case CLEAR: LIB(a.clear()); faults(); ref[0].clear(); break;
    case SWAP: if(o.x) LIB(b.swap(a)); else LIB(a.swap(b)); faults(); ref[0].swap(ref[1]); break;
    case SELFSWAP: LIB(a.swap(a)); faults(); break;
#ifndef VF_PM
    case COPY:
    {
      C* n = 0;
      LIB(n = new C(a));
      faults();
      LIB(delete v[1]);
      faults();
      v[1] = n; ref[1] = ref[0]; learn(1);
      break;
    }
    case ASSIGN_BA: LIB(b = a); faults(); ref[1] = ref[0]; learn(1); break;
    case ASSIGN_AB: LIB(a = b); faults(); ref[0] = ref[1]; learn(0); break;
    case SELFASSIGN: { C& r = a; LIB(a = r); faults(); learn(0); break; }
#endif
#ifdef VF_HS
    case SETAPPEND:
      LIB(a.append(b)); faults();
      for(size_t j = 0; j < ref[1].size(); ++j) { bool n; modelInsert(ref[0], (int)ref[0].size(), ref[1][j].key, 0, n); }
      learnNew(0);
      break;
    case SETREMOVE:
      LIB(a.remove(b)); faults();
      for(size_t j = 0; j < ref[1].size(); ++j) { int p = idx(0, ref[1][j].key); if(p >= 0) ref[0].erase(ref[0].begin() + p); }
      break;
    case SETAPPENDSELF: LIB(a.append(a)); faults(); break;
    case SETREMOVESELF: LIB(a.remove(a)); faults(); ref[0].clear(); break;
#endif
    case INSOWN:
    { // insert with references to the container's own key (and value): as if copied first -> nothing changes
      C::Iterator it = at(a, o.x), r;
#if defined(VF_HM)
      const Tracked& k = it.key(); const Tracked& val = *it;
      LIB(r = a.insert(a.begin(), k, val));
#elif defined(VF_HS)
      const Tracked& k = *it;
      LIB(r = a.insert(a.begin(), k));
#else
      const Tracked& k = it.key();
      LIB(r = a.insert(a.begin(), k));
#endif
      faults();
      VF_CHECK(r == it, "C04:" CNAME ":own-element-argument", "insert(own key) did not return the existing element");
      break;
    }
    case REMOWNKEY:
    { // remove(key) where the key reference designates the stored key itself
      C::Iterator it = at(a, o.x);
#if defined(VF_HS)
      const Tracked& k = *it;
#else
      const Tracked& k = it.key();
#endif
      LIB(a.remove(k));
      faults();
      ref[0].erase(ref[0].begin() + o.x);
      break;
    }
    }
    verify(kindName(o.kind));
  }

  void verifyOne(int w, const char* after)
  {
    C& c = *v[w];
    Ref& r = ref[w];
    const char* nm = w ? "B" : "A";
    int n = (int)r.size();
    VF_CHECK((int)c.size() == n, PTAG + ":" CNAME ":size", "after %s: %s.size() = %d, reference %d", after, nm, (int)c.size(), n);
    VF_CHECK(c.isEmpty() == (n == 0), PTAG + ":" CNAME ":isEmpty", "after %s: %s.isEmpty() = %d with %d elements", after, nm, (int)c.isEmpty(), n);
    int i = 0;
    for(C::Iterator it = c.begin(); it != c.end(); ++it, ++i)
    {
      VF_CHECK(i < n, PTAG + ":" CNAME ":iteration", "after %s: %s iterates over more than %d elements", after, nm, n);
      int k = keyOf(it), val = valOf(it);
      VF_CHECK(k == r[i].key, PTAG + ":" CNAME ":order", "after %s: %s[%d] has key %d, reference %d", after, nm, i, k, r[i].key);
#ifndef VF_HS
      VF_CHECK(val == r[i].tag, PTAG + ":" CNAME ":value", "after %s: %s[%d] (key %d) has value %d, reference %d", after, nm, i, k, val, r[i].tag);
#endif
      VF_CHECK(kaddrOf(it) == r[i].kaddr && vaddrOf(it) == r[i].vaddr, "C05:" CNAME ":element-moved",
        "after %s: element with key %d of %s moved from %p to %p", after, k, nm, r[i].vaddr, vaddrOf(it));
    }
    VF_CHECK(i == n, PTAG + ":" CNAME ":iteration", "after %s: %s iterates over %d elements, reference %d", after, nm, i, n);
    if(n)
    {
      i = n;
      C::Iterator it = c.end();
      do
      {
        --it; --i;
        VF_CHECK(i >= 0, PTAG + ":" CNAME ":iteration", "after %s: backward iteration of %s runs past the first element", after, nm);
        VF_CHECK(keyOf(it) == r[i].key, PTAG + ":" CNAME ":order-backward", "after %s: backward %s[%d] has key %d, reference %d", after, nm, i, keyOf(it), r[i].key);
      } while(it != c.begin());
      VF_CHECK(i == 0, PTAG + ":" CNAME ":iteration", "after %s: backward iteration of %s stops at index %d", after, nm, i);
#if defined(VF_HM)
      VF_CHECK(c.front().get() == r[0].tag && c.back().get() == r[n - 1].tag, PTAG + ":" CNAME ":front-back", "after %s: front()/back() of %s differ from the reference", after, nm);
#elif defined(VF_HS)
      VF_CHECK(c.front().get() == r[0].key && c.back().get() == r[n - 1].key, PTAG + ":" CNAME ":front-back", "after %s: front()/back() of %s differ from the reference", after, nm);
#else
      VF_CHECK(c.front().t.get() == r[0].tag && c.back().t.get() == r[n - 1].tag, PTAG + ":" CNAME ":front-back", "after %s: front()/back() of %s differ from the reference", after, nm);
#endif
    }
    else
      VF_CHECK(c.begin() == c.end(), PTAG + ":" CNAME ":iteration", "after %s: begin() != end() in empty %s", after, nm);
    for(int k = -1; k <= cfg.K; ++k)
    {
      Tracked key(k);
      C::Iterator it = c.find(key);
      int p = idx(w, k);
      if(p < 0) VF_CHECK(it == c.end(), PTAG + ":" CNAME ":find", "after %s: %s.find(%d) found something although the key is absent", after, nm, k);
      else
      {
        VF_CHECK(it != c.end(), PTAG + ":" CNAME ":find", "after %s: %s.find(%d) = end() although the key is present", after, nm, k);
        VF_CHECK(kaddrOf(it) == r[p].kaddr, PTAG + ":" CNAME ":find", "after %s: %s.find(%d) designates a different element", after, nm, k);
      }
      VF_CHECK(c.contains(key) == (p >= 0), PTAG + ":" CNAME ":contains", "after %s: %s.contains(%d) wrong", after, nm, k);
    }
  }

  void verify(const char* after)
  {
    faults();
    verifyOne(0, after);
    verifyOne(1, after);
#ifndef VF_PM
    bool eq = ref[0].size() == ref[1].size();
    for(size_t i = 0; eq && i < ref[0].size(); ++i)
    {
      if(ref[0][i].key != ref[1][i].key) eq = false;
#ifdef VF_HM
      if(ref[0][i].tag != ref[1][i].tag) eq = false;
#endif
    }
    bool e1 = *v[0] == *v[1], e2 = *v[1] == *v[0], n1 = *v[0] != *v[1];
    VF_CHECK(e1 == eq && e2 == eq && n1 == !eq, PTAG + ":" CNAME ":equality", "after %s: A==B is %d, B==A is %d, A!=B is %d; reference equality %d", after, (int)e1, (int)e2, (int)n1, (int)eq);
    VF_CHECK(*v[0] == *v[0], PTAG + ":" CNAME ":equality", "after %s: A == A is false", after);
#endif
    faults();
  }

  std::string canon()
  {
    std::string s = CNAME;
    for(int w = 0; w < 2; ++w)
    {
      s += w ? "|B:" : "|A:";
      for(size_t i = 0; i < ref[w].size(); ++i) s += vf::fmt("%d,", ref[w][i].key);
#ifdef VF_INTERNALS
      C& c = *v[w];
      s += vf::fmt("cap%d", (int)c.capacity);
      if(c.data)
        for(usize bkt = 0; bkt < c.capacity && bkt < 8; ++bkt)
        {
          s += '[';
          int guard = 0;
          // chain order, and whether every item's back-pointer designates the slot that points at it (a stale one decides a later removal)
          auto** slot = &c.data[bkt];
          for(auto* it = c.data[bkt]; it && guard < 50; slot = &it->nextCell, it = it->nextCell, ++guard) s += vf::fmt(it->cell == slot ? "%d " : "%d! ", it->key.v);
          s += ']';
        }
      else s += "nodata";
#endif
      s += poolCanon(*v[w], *v[1 - w]);
      s += linkCanon(*v[w]);
    }
    return s;
  }

  void finish()
  {
    LIB(delete v[0]); LIB(delete v[1]);
    v[0] = v[1] = 0;
    faults();
    vf::Registry& r = vf::reg();
    VF_CHECK(r.live.empty(), "C04:" CNAME ":element-leak", "%d element(s)/key(s) still alive after the containers were destroyed", (int)r.live.size());
    VF_CHECK(vf::ledger().live_blocks == 0, "C04:" CNAME ":memory-leak", "%lld heap block(s) (%lld bytes) still allocated after the containers were destroyed",
      vf::ledger().live_blocks, vf::ledger().live_bytes);
    VF_CHECK(r.ctor == r.dtor, "C04:" CNAME ":ctor-dtor-balance", "%lld constructions vs %lld destructions", r.ctor, r.dtor);
  }
};

int main(int argc, char** argv)
{
  vf::std_init(argc, argv);
  Cfg c;
  c.K = (int)vf::argll(argc, argv, "--keys", 3);
  c.capacity = (int)vf::argll(argc, argv, "--capacity", 0);
  c.capacityB = (int)vf::argll(argc, argv, "--capacityB", -1);
  c.hashMode = (int)vf::argll(argc, argv, "--hash", 0);
  c.selfOps = vf::flag(argc, argv, "--selfops");
  c.twoVars = !vf::flag(argc, argv, "--onevar");
  static const char* hm[] = {"identity", "constant", "mod2"};
  std::string label = vf::fmt(CNAME " K=%d cap=%d hash=%s%s", c.K, c.capacity ? c.capacity : 500, hm[c.hashMode], c.selfOps ? " selfops" : "");
  if(!c.twoVars) label += " onevar";
  if(c.capacityB >= 0) label += vf::fmt(" capB=%d", c.capacityB ? c.capacityB : 500);
  return vf::bfs_main<H, Cfg>(argc, argv, c, label, 64);
}
