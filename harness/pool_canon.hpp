// Canonical-state contribution of the slot pool that List, PoolList, HashMap, HashSet and PoolMap keep behind the
// public interface: number of spare slots, number of blocks, and whether two containers share one spare list.
// The element sequence alone does not determine the future of such a container when the pool is damaged (a swap that
// hands over the wrong spare list, a clear that forgets slots), so states that differ here must not be merged.
#pragma once
#ifdef VF_INTERNALS
template<class C> static std::string poolCanon(C& c, C& other)
{
  int f = 0, b = 0;
  for(auto* i = c.freeItem; i && f < 500; i = i->prev) ++f;
  for(auto* k = c.blocks; k && b < 500; k = k->next) ++b;
  return vf::fmt(" f%d b%d%s", f, b, (c.freeItem && c.freeItem == other.freeItem) ? " shared" : "");
}
// sentinel bookkeeping of the element list: in a correct implementation it follows from the element sequence; a wrong one
// can leave it stale (a clear that forgets the back link), and the stale value decides the next insertion
template<class C> static std::string linkCanon(C& c)
{
  auto* e = &c.endItem;
  decltype(e) last = 0;
  int n = 0;
  bool back = true;
  for(auto* i = c._begin.item; i && i != e && n < 1000; i = i->next) { if(i->prev != last) back = false; last = i; ++n; }
  return vf::fmt(" n%d/%d end.prev=%s%s", n, (int)c._size, !e->prev ? "null" : e->prev == last ? "last" : "STALE", back ? "" : " prev!");
}
#else
template<class C> static std::string poolCanon(C&, C&) { return std::string(); }
template<class C> static std::string linkCanon(C&) { return std::string(); }
#endif
