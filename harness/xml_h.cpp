// C16: exhaustive input enumeration for Xml::parse / toString (explorer D).
//   --mode sizes    : serialiser buffer-size boundaries (values with 0..--len escapes), round trip
//   --mode parse    : every token string up to --len tokens (exact heap copy, ASan, time + memory watchdog, error position)
//   --mode deep     : nesting 1/10/100/1000
//   --mode round    : every element tree within the bounds: parse(toString(e)) is structurally equal
//   --mode comments : every such tree serialised by the harness with comments / PIs inserted at every boundary
#define VF_LEDGER
#include <nstd/Document/Xml.hpp>
#include "engine/enum.hpp"
#include <string>

static const char* TOK[] = {"<", ">", "/", "=", "\"", "'", "?", "!", "-", "&", ";", "#", "a", "b", " ", "\n", "\r", "1", "x",
  "<!--", "-->", "<?", "?>", "</", "/>", "&amp;", "&#65;"};
static const int NTOK = 27;

static void lineInfo(const std::string& s, std::vector<int>& lens)
{
  lens.clear();
  int cur = 0;
  for(size_t i = 0; i < s.size(); ++i)
  {
    if(s[i] == '\r') { lens.push_back(cur); cur = 0; if(i + 1 < s.size() && s[i + 1] == '\n') ++i; }
    else if(s[i] == '\n') { lens.push_back(cur); cur = 0; }
    else ++cur;
  }
  lens.push_back(cur);
}
static bool checkErrorPos(const std::string& text, int line, int col, std::string& why)
{
  std::vector<int> lens;
  lineInfo(text, lens);
  if(line < 1 || line > (int)lens.size()) { why = vf::fmt("error line %d outside 1..%d", line, (int)lens.size()); return false; }
  if(col < 1 || col > lens[line - 1] + 1) { why = vf::fmt("error column %d outside 1..%d of line %d", col, lens[line - 1] + 1, line); return false; }
  return true;
}

// ---------------------------------------------------------------- model trees
struct MNode
{
  bool isText; std::string text;                 // text node
  std::string name; std::vector<std::pair<std::string, std::string> > attrs; std::vector<MNode> kids;
  MNode() : isText(false) {}
};
static std::string esc(const std::string& s)
{
  std::string r;
  for(size_t i = 0; i < s.size(); ++i)
    switch(s[i]) { case '"': r += "&quot;"; break; case '\'': r += "&apos;"; break; case '&': r += "&amp;"; break; case '<': r += "&lt;"; break; case '>': r += "&gt;"; break;
                   case '\n': r += "&#10;"; break; case '\r': r += "&#13;"; break; default: r += s[i]; }
  return r;
}
// serialise with insertion points: `ins` is inserted at boundary number `at` (-1 = nowhere); returns number of boundaries
static void ser(const MNode& n, std::string& out, int& counter, int at, const std::string& ins)
{
#define BOUNDARY() do { if(counter++ == at) out += ins; } while(0)
  // inside a tag a comment stands where white space stands, i.e. it is separated from names by white space
#define TAGBOUNDARY() do { if(counter++ == at) out += " " + ins + " "; } while(0)
  if(n.isText) { BOUNDARY(); out += esc(n.text); BOUNDARY(); return; }
  BOUNDARY();
  out += "<" + n.name;
  for(size_t i = 0; i < n.attrs.size(); ++i) { TAGBOUNDARY(); out += " " + n.attrs[i].first + "=\"" + esc(n.attrs[i].second) + "\""; }
  TAGBOUNDARY();
  if(n.kids.empty()) { out += "/>"; return; }
  out += ">";
  for(size_t i = 0; i < n.kids.size(); ++i) ser(n.kids[i], out, counter, at, ins);
  BOUNDARY();
  out += "</" + n.name;
  TAGBOUNDARY();
  out += ">";
}
static Xml::Element build(const MNode& n)
{
  Xml::Element e;
  e.line = e.column = 0;
  e.type = String(n.name.data(), n.name.size());
  for(size_t i = 0; i < n.attrs.size(); ++i) e.attributes.append(String(n.attrs[i].first.data(), n.attrs[i].first.size()), String(n.attrs[i].second.data(), n.attrs[i].second.size()));
  for(size_t i = 0; i < n.kids.size(); ++i)
    if(n.kids[i].isText) e.content.append(Xml::Variant(String(n.kids[i].text.data(), n.kids[i].text.size())));
    else e.content.append(Xml::Variant(build(n.kids[i])));
  return e;
}
static std::string sstr(const String& s) { return std::string((const char*)s, s.length()); }
// structural comparison; adjacent text pieces are concatenated, empty text ignored
static bool same(const Xml::Element& e, const MNode& n, std::string& why, const std::string& path)
{
  if(sstr(e.type) != n.name) { why = path + ": element name '" + vf::show(sstr(e.type)) + "' vs '" + n.name + "'"; return false; }
  if(e.attributes.size() != n.attrs.size()) { why = path + vf::fmt(": %d attributes vs %d", (int)e.attributes.size(), (int)n.attrs.size()); return false; }
  size_t k = 0;
  for(HashMap<String, String>::Iterator i = e.attributes.begin(); i != e.attributes.end(); ++i, ++k)
    if(sstr(i.key()) != n.attrs[k].first || sstr(*i) != n.attrs[k].second)
    { why = path + ": attribute " + vf::show(sstr(i.key())) + "='" + vf::show(sstr(*i)) + "' vs " + n.attrs[k].first + "='" + vf::show(n.attrs[k].second) + "'"; return false; }
  // normalise content
  std::vector<std::pair<std::string, const Xml::Element*> > got;
  for(List<Xml::Variant>::Iterator i = e.content.begin(); i != e.content.end(); ++i)
  {
    if(i->isText())
    {
      std::string t = sstr(i->toString());
      if(t.empty()) continue;
      if(!got.empty() && !got.back().second) got.back().first += t; else got.push_back(std::make_pair(t, (const Xml::Element*)0));
    }
    else if(i->isElement()) got.push_back(std::make_pair(std::string(), &i->toElement()));
    else { why = path + ": null content node"; return false; }
  }
  if(got.size() != n.kids.size()) { why = path + vf::fmt(": %d content nodes vs %d", (int)got.size(), (int)n.kids.size()); return false; }
  for(size_t j = 0; j < got.size(); ++j)
  {
    if(n.kids[j].isText != (got[j].second == 0)) { why = path + vf::fmt(": content node %d kind differs", (int)j); return false; }
    if(n.kids[j].isText) { if(got[j].first != n.kids[j].text) { why = path + ": text '" + vf::show(got[j].first) + "' vs '" + vf::show(n.kids[j].text) + "'"; return false; } }
    else if(!same(*got[j].second, n.kids[j], why, path + "/" + n.kids[j].name)) return false;
  }
  return true;
}

// enumeration of trees: --elements E (<= E elements), attribute values / texts from token tables
static std::vector<std::string> valueStrings(int maxTok)
{
  const char* a[] = {"a", "\"", "'", "&", "<", ">", "\n", "\r", " ", "\xc3\xa9", "&#65;", "&amp;"};
  std::vector<std::string> r; r.push_back("");
  for(int i = 0; i < 12; ++i) r.push_back(a[i]);
  if(maxTok >= 2) for(int i = 0; i < 12; ++i) for(int j = 0; j < 12; ++j) r.push_back(std::string(a[i]) + a[j]);
  return r;
}
static std::vector<std::string> textStrings(int maxTok)
{
  const char* a[] = {"a", " ", "/", "=", "\"", "&", "<", "\n"};
  std::vector<std::string> r;
  for(int i = 0; i < 8; ++i) r.push_back(a[i]);
  if(maxTok >= 2) for(int i = 0; i < 8; ++i) for(int j = 0; j < 8; ++j) r.push_back(std::string(a[i]) + a[j]);
  if(maxTok >= 3) for(int i = 0; i < 8; ++i) for(int j = 0; j < 8; ++j) for(int k = 0; k < 8; ++k) r.push_back(std::string(a[i]) + a[j] + a[k]);
  std::vector<std::string> nb;
  for(size_t i = 0; i < r.size(); ++i) { bool blank = true; for(size_t j = 0; j < r[i].size(); ++j) if(!strchr(" \n\r\t", r[i][j])) blank = false; if(!blank) nb.push_back(r[i]); }
  return nb;
}

struct TreeGen
{
  std::vector<std::string> vals, texts;
  std::vector<MNode> out;
  // shapes: root with attribute configs and content patterns; children are leaf elements or one nested level
  void gen(int valTok, int textTok, bool small)
  {
    vals = valueStrings(valTok); texts = textStrings(textTok);
    std::vector<std::string> v1 = vals, t1 = texts;
    if(small) { v1.resize(std::min<size_t>(v1.size(), 13)); t1.resize(std::min<size_t>(t1.size(), 8)); }
    // 1 element: attributes 0,1,2 ; content: none or one text
    for(size_t a = 0; a < v1.size(); ++a) { MNode n; n.name = "a"; n.attrs.push_back(std::make_pair(std::string("x"), v1[a])); out.push_back(n); }
    for(size_t a = 0; a < 13 && a < v1.size(); ++a) for(size_t b = 0; b < 13 && b < v1.size(); ++b)
    { MNode n; n.name = "a"; n.attrs.push_back(std::make_pair(std::string("x"), v1[a])); n.attrs.push_back(std::make_pair(std::string("y:z"), v1[b])); out.push_back(n); }
    for(size_t t = 0; t < t1.size(); ++t) { MNode n; n.name = "a"; MNode x; x.isText = true; x.text = t1[t]; n.kids.push_back(x); out.push_back(n); }
    // 2-3 elements with texts around children
    std::vector<std::string> ts; ts.push_back("a"); ts.push_back(" a"); ts.push_back("a "); ts.push_back("/x"); ts.push_back(" /x"); ts.push_back("=\""); ts.push_back("&<"); ts.push_back("a\nb");
    std::vector<std::string> tsn = ts; tsn.push_back(""); // "" = no text at this place
    for(size_t t0 = 0; t0 < tsn.size(); ++t0) for(size_t t1i = 0; t1i < tsn.size(); ++t1i) for(int childKids = 0; childKids < 3; ++childKids)
    {
      MNode root; root.name = "r";
      MNode child; child.name = "b"; child.attrs.push_back(std::make_pair(std::string("k"), std::string("v\"<")));
      if(childKids == 1) { MNode x; x.isText = true; x.text = "t"; child.kids.push_back(x); }
      if(childKids == 2) { MNode g; g.name = "c"; child.kids.push_back(g); MNode x; x.isText = true; x.text = " u"; child.kids.push_back(x); }
      if(!tsn[t0].empty()) { MNode x; x.isText = true; x.text = tsn[t0]; root.kids.push_back(x); }
      root.kids.push_back(child);
      if(!tsn[t1i].empty()) { MNode x; x.isText = true; x.text = tsn[t1i]; root.kids.push_back(x); }
      out.push_back(root);
      // two children with text between them
      MNode root2 = root; MNode c2; c2.name = "b"; root2.kids.push_back(c2); out.push_back(root2);
    }
  }
};

// every byte prefix of a well-formed document: truncation inside a comment delimiter, an entity, a quoted value, an end tag
static void truncations(const std::string& doc, const std::string& cs)
{
  for(size_t k = 1; k < doc.size(); ++k)
  {
    std::string text = doc.substr(0, k);
    vf::Exact e(text, true);
    Xml::Parser p; Xml::Element el;
    bool ok = p.parse(String::fromCString(e.p, text.size()), el);
    vf::hit("prefix_inputs");
    std::string why;
    if(!ok && !checkErrorPos(text, p.getErrorLine(), p.getErrorColumn(), why)) vf::violation("C16:xml:error-position", cs + vf::fmt(" truncated to %d bytes", (int)k), why);
  }
}

int main(int argc, char** argv)
{
  vf::std_init(argc, argv);
  vf::Shard sh; sh.init(argc, argv);
  vf::ledger().enabled = true;                 // count every allocation: unbounded growth hits the cap
  vf::ledger().cap_bytes = 256ll << 20;
  std::string mode = vf::arg(argc, argv, "--mode", "parse");
  int len = (int)vf::argll(argc, argv, "--len", 4);

  if(mode == "parse")
  {
    vf::Odometer od(NTOK, len);
    long long n = 0;
    while(od.next())
    {
      if(!sh.take()) continue;
      std::string text, cs = "parse tokens=";
      for(int i = 0; i < od.len; ++i) { text += TOK[od.d[i]]; cs += vf::fmt(i ? ",%d" : "%d", od.d[i]); }
      cs += " text='" + vf::show(text) + "'";
      vf::crumb("xml.parse", sh.token(), cs);
      if((n++ & 0xff) == 0) vf::watchdog_arm(20000);
      vf::Exact e(text, true);
      Xml::Parser p; Xml::Element el;
      bool ok = p.parse(String::fromCString(e.p, text.size()), el);
      // the static entry point takes the exactly sized buffer directly
      Xml::Element el2;
      bool ok2 = Xml::parse((const char*)e.p, el2);
      vf::hit("parse_inputs");
      if(od.len >= 2) vf::hit("distinct_nontrivial");
      if(ok != ok2) vf::violation("C16:xml:parse-entry-points-disagree", cs, "Parser::parse and Xml::parse disagree");
      if(ok) { vf::hit("parse_accepted"); continue; }
      vf::hit("parse_rejected");
      std::string why;
      if(!checkErrorPos(text, p.getErrorLine(), p.getErrorColumn(), why)) vf::violation("C16:xml:error-position", cs, why);
      if(od.len == 4 && od.d[0] == 0 && od.d[1] == 12) vf::sample(cs, 3);
    }
  }
  else if(mode == "reuse")
  { // histories on ONE Parser object and ONE result element: parse(doc1) then parse(doc2) must behave like a fresh parser on doc2
    int len2 = (int)vf::argll(argc, argv, "--len2", len);
    struct Doc { std::string text; int ntok; vf::Exact* e; bool ok; int line, col; std::string err, val; };
    std::vector<Doc*> docs;
    {
      vf::Odometer od(NTOK, len > len2 ? len : len2);
      while(od.next())
      {
        Doc* d = new Doc; d->ntok = od.len;
        for(int i = 0; i < od.len; ++i) d->text += TOK[od.d[i]];
        d->e = new vf::Exact(d->text, true);
        Xml::Parser f; Xml::Element el;
        d->ok = f.parse(String::fromCString(d->e->p, d->text.size()), el);
        d->line = d->ok ? 0 : f.getErrorLine(); d->col = d->ok ? 0 : f.getErrorColumn();
        if(!d->ok) { String es = f.getErrorString(); d->err.assign((const char*)es, es.length()); }
        else { String t = el.toString(); d->val.assign((const char*)t, t.length()); }
        docs.push_back(d);
      }
    }
    // a few complete first documents as well (the token strings above are mostly rejected): marked with token count 0
    {
      static const char* FIRST[] = {"<a x=\"1\" y=\"2\">t<b/>u</a>", "<a><b><c/></b></a>", "<?xml version=\"1.0\"?>\n<r k=\"v\"/>", "<a>\n<b>\n<"};
      for(size_t i = 0; i < sizeof(FIRST) / sizeof(*FIRST); ++i)
      {
        Doc* d = new Doc; d->ntok = 0; d->text = FIRST[i]; d->e = new vf::Exact(d->text, true); d->ok = false; d->line = d->col = 0;
        docs.insert(docs.begin(), d);
      }
    }
    long long n = 0;
    for(size_t i = 0; i < docs.size(); ++i)
    {
      if(docs[i]->ntok > len) break;   // the vector is ordered by token count
      if(!sh.take()) continue;
      for(size_t j = 0; j < docs.size() && docs[j]->ntok <= len2; ++j)
      {
        if(docs[j]->ntok == 0 && !docs[j]->text.empty()) continue;   // fixed first documents are not used as second ones
        if((n++ & 0xfff) == 0) { vf::watchdog_arm(20000); vf::crumb("xml.reuse", sh.token(), "reuse first='" + vf::show(docs[i]->text) + "' second='" + vf::show(docs[j]->text) + "'"); }
        Xml::Parser p; Xml::Element el;
        p.parse(String::fromCString(docs[i]->e->p, docs[i]->text.size()), el);
        const Doc& d = *docs[j];
        bool ok = p.parse(String::fromCString(d.e->p, d.text.size()), el);
        vf::hit("reuse_pairs"); vf::hit("parse_inputs"); vf::hit("distinct_nontrivial");
        bool same = ok == d.ok;
        std::string got;
        if(same && ok) { String t = el.toString(); got.assign((const char*)t, t.length()); same = got == d.val; }
        if(same && !ok)
        {
          String es = p.getErrorString();
          same = p.getErrorLine() == d.line && p.getErrorColumn() == d.col && std::string((const char*)es, es.length()) == d.err;
        }
        if(!same)
        {
          String es = p.getErrorString();
          vf::violation("C16:xml:parser-reuse", "reuse first='" + vf::show(docs[i]->text) + "' second='" + vf::show(d.text) + "'",
            vf::fmt("second parse on the same Parser: ok=%d line %d column %d '%s' value '%s'; a fresh Parser: ok=%d line %d column %d '%s' value '%s'",
              (int)ok, ok ? 0 : p.getErrorLine(), ok ? 0 : p.getErrorColumn(), ok ? "" : (const char*)es, vf::show(got).c_str(), (int)d.ok, d.line, d.col, d.err.c_str(), vf::show(d.val).c_str()));
        }
      }
    }
  }
  else if(mode == "deep")
  {
    static const int depths[] = {1, 10, 100, 1000};
    // kind 1 / 2: every level also holds an empty / a non-empty sibling before the next level opens
    for(int kind = 0; kind < 3; ++kind) for(int d = 0; d < 4; ++d) for(int closed = 0; closed < 2; ++closed)
    {
      if(!sh.take()) continue;
      std::string text;
      for(int i = 0; i < depths[d]; ++i) text += kind == 0 ? "<a x=\"1\">" : kind == 1 ? "<a x=\"1\"><e/>" : "<a x=\"1\"><e>s</e>";
      text += "t";
      if(closed) for(int i = 0; i < depths[d]; ++i) text += "</a>";
      std::string cs = vf::fmt("deep kind=%d depth=%d closed=%d", kind, depths[d], closed);
      vf::crumb("xml.deep", sh.token(), cs);
      vf::watchdog_arm(60000);
      vf::Exact e(text, true);
      Xml::Parser p; Xml::Element el;
      bool ok = p.parse(String::fromCString(e.p, text.size()), el);
      vf::hit("deep_inputs"); vf::hit("distinct_nontrivial");
      if(ok != (closed != 0)) vf::violation("C16:xml:deep-nesting", cs, closed ? "well-formed nested document rejected" : "truncated nested document accepted");
      std::string why;
      if(!ok && !checkErrorPos(text, p.getErrorLine(), p.getErrorColumn(), why)) vf::violation("C16:xml:error-position", cs, why);
      if(ok)
      {
        String out = Xml::toString(el);
        Xml::Element again;
        if(!Xml::parse(out, again) || again.toString() != el.toString()) vf::violation("C16:xml:roundtrip", cs, "deep tree does not survive toString/parse");
      }
      vf::sample(cs, 2);
    }
  }
  else if(mode == "round" || mode == "comments")
  {
    TreeGen g;
    g.gen((int)vf::argll(argc, argv, "--valtok", 2), (int)vf::argll(argc, argv, "--texttok", 2), mode == "comments");
    static const char* INS[] = {"<!--c-->", "<!-- - -- \n -->", " ", "<!--a--><!--b-->"};
    for(size_t i = 0; i < g.out.size(); ++i)
    {
      const MNode& t = g.out[i];
      if(mode == "round")
      {
        if(!sh.take()) continue;
        Xml::Element e = build(t);
        String text = Xml::toString(e);
        std::string cs = vf::fmt("roundtrip tree=%d xml='", (int)i) + vf::show(sstr(text)) + "'";
        vf::crumb("xml.round", sh.token(), cs);
        vf::watchdog_arm(20000);
        vf::Exact ex(sstr(text), true);
        Xml::Parser p; Xml::Element back;
        vf::hit("roundtrip_trees"); vf::hit("distinct_nontrivial");
        std::string why;
        if(!p.parse(String::fromCString(ex.p, text.length()), back))
          vf::violation("C16:xml:roundtrip", cs, vf::fmt("serialised text is rejected: line %d column %d: %s", p.getErrorLine(), p.getErrorColumn(), (const char*)p.getErrorString()));
        else if(!same(back, t, why, "/" + t.name)) vf::violation("C16:xml:roundtrip", cs, "re-parsed tree differs: " + why);
        else if(i % 400 == 3) vf::sample(cs, 3);
        truncations(sstr(text), cs);
        continue;
      }
      // comments / processing instructions at every boundary
      std::string plain; int nb = 0;
      ser(t, plain, nb, -1, "");
      for(int at = 0; at < nb; ++at) for(int k = 0; k < 4; ++k)
      {
        if(!sh.take()) continue;
        std::string text; int c = 0;
        ser(t, text, c, at, INS[k]);
        if(k == 2) continue; // plain blank insertion changes text content next to text nodes; only used via INS[1]'s blanks
        std::string doc = (at % 2 ? "<?xml version=\"1.0\"?>\n<?pi a\nb?>" : "") + text;
        std::string cs = vf::fmt("comments tree=%d boundary=%d insert=%d xml='", (int)i, at, k) + vf::show(doc) + "'";
        vf::crumb("xml.comments", sh.token(), cs);
        vf::watchdog_arm(20000);
        vf::Exact ex(doc, true);
        Xml::Parser p; Xml::Element back;
        vf::hit("comment_documents"); vf::hit("distinct_nontrivial");
        std::string why;
        if(!p.parse(String::fromCString(ex.p, doc.size()), back))
          vf::violation("C16:xml:comments", cs, vf::fmt("document with a comment is rejected: line %d column %d: %s", p.getErrorLine(), p.getErrorColumn(), (const char*)p.getErrorString()));
        else if(!same(back, t, why, "/" + t.name)) vf::violation("C16:xml:comments", cs, "tree differs from the one parsed without comments: " + why);
        else if(i % 60 == 5 && at == 2) vf::sample(cs, 3);
        if(k == 1) truncations(doc, cs);
      }
    }
  }
  else if(mode == "bytes")
  {
    // every 7-bit character (XML allows TAB, LF, CR and 0x20..0x7f) alone, between two letters and doubled, as attribute value and as text:
    // an escape table has one entry per character, a sample of them proves nothing
    for(int b = 1; b < 0x80; ++b) for(int form = 0; form < 3; ++form) for(int where = 0; where < 2; ++where)
    {
      if(b < 0x20 && b != '\t' && b != '\n' && b != '\r') continue;
      if(!sh.take()) continue;
      std::string v = form == 0 ? std::string(1, (char)b) : form == 1 ? std::string("x") + (char)b + "y" : std::string(2, (char)b) + "z";
      bool blank = true; for(size_t j = 0; j < v.size(); ++j) if(!strchr(" \n\r\t", v[j])) blank = false;
      if(where == 1 && (blank || strchr(" \n\r\t", v[0]) || strchr(" \n\r\t", v[v.size() - 1]))) continue;   // white space at the edge of text is not preserved by design
      MNode root; root.name = "r";
      if(where == 0) root.attrs.push_back(std::make_pair(std::string("v"), v));
      else { MNode x; x.isText = true; x.text = v; root.kids.push_back(x); }
      Xml::Element e = build(root);
      std::string cs = vf::fmt("bytes char=0x%02x form=%d where=%s", b, form, where ? "text" : "attribute");
      vf::crumb("xml.bytes", sh.token(), cs);
      vf::watchdog_arm(20000);
      String text = Xml::toString(e);
      vf::Exact ex(sstr(text), true);
      Xml::Parser ps; Xml::Element back;
      vf::hit("byte_documents"); vf::hit("distinct_nontrivial");
      std::string why;
      if(!ps.parse(String::fromCString(ex.p, text.length()), back))
        vf::violation("C16:xml:roundtrip", cs, vf::fmt("serialised text is rejected: line %d column %d: %s", ps.getErrorLine(), ps.getErrorColumn(), (const char*)ps.getErrorString()));
      else if(!same(back, root, why, "/r")) vf::violation("C16:xml:roundtrip", cs, "re-parsed tree differs: " + why);
    }
    // decimal character references of every body length 1..10 (code points at each power of ten and each UTF-8 length boundary, with
    // 0..3 leading zeros), as attribute value and as text: the parsed value is the UTF-8 encoding of the code point
    static const unsigned cps[] = {9, 10, 13, 65, 99, 100, 127, 128, 999, 1000, 2047, 2048, 9999, 10000, 65533, 99999, 100000, 999999, 1000000, 1114111};
    for(size_t c = 0; c < sizeof(cps) / sizeof(*cps); ++c) for(int zeros = 0; zeros < 4; ++zeros) for(int where = 0; where < 2; ++where)
    {
      if(!sh.take()) continue;
      unsigned cp = cps[c];
      std::string u;
      if(cp < 0x80) u += (char)cp;
      else if(cp < 0x800) { u += (char)(0xc0 | cp >> 6); u += (char)(0x80 | (cp & 0x3f)); }
      else if(cp < 0x10000) { u += (char)(0xe0 | cp >> 12); u += (char)(0x80 | (cp >> 6 & 0x3f)); u += (char)(0x80 | (cp & 0x3f)); }
      else { u += (char)(0xf0 | cp >> 18); u += (char)(0x80 | (cp >> 12 & 0x3f)); u += (char)(0x80 | (cp >> 6 & 0x3f)); u += (char)(0x80 | (cp & 0x3f)); }
      std::string ref = "&#" + std::string(zeros, '0') + vf::fmt("%u", cp) + ";";
      MNode root; root.name = "r";
      std::string doc;
      if(where == 0) { root.attrs.push_back(std::make_pair(std::string("v"), "x" + u + "y")); doc = "<r v=\"x" + ref + "y\"/>"; }
      else { MNode x; x.isText = true; x.text = "x" + u + "y"; root.kids.push_back(x); doc = "<r>x" + ref + "y</r>"; }
      std::string cs = "bytes reference doc='" + doc + "'";
      vf::crumb("xml.bytes", sh.token(), cs);
      vf::watchdog_arm(20000);
      vf::Exact ex(doc, true);
      Xml::Parser ps; Xml::Element back;
      vf::hit("reference_documents"); vf::hit("distinct_nontrivial");
      std::string why;
      if(!ps.parse(String::fromCString(ex.p, doc.size()), back))
        vf::violation("C16:xml:reference", cs, vf::fmt("document is rejected: line %d column %d: %s", ps.getErrorLine(), ps.getErrorColumn(), (const char*)ps.getErrorString()));
      else if(!same(back, root, why, "/r")) vf::violation("C16:xml:reference", cs, "character reference decoded wrongly: " + why);
    }
  }
  else if(mode == "sizes")
  {
    // buffer-size boundaries of the serialiser: values  a^p  c^n  z^t  for every character c that needs an escape (and one that does not),
    // n = 0..--len, as attribute value and as text; the escaper sizes its output from the input length plus a fixed slack, so n walks the
    // output across every reallocation point
    static const char SPEC[] = {'"', '\'', '&', '<', '>', '\n', '\r', 'q'};
    for(int c = 0; c < 8; ++c) for(int n = 0; n <= len; ++n) for(int p = 0; p < 2; ++p) for(int t = 0; t < 3; ++t) for(int where = 0; where < 2; ++where)
    {
      if(!sh.take()) continue;
      std::string v(p, 'a'); v += std::string(n, SPEC[c]); v += std::string(t == 2 ? 3 : t, 'z');
      bool blank = true; for(size_t j = 0; j < v.size(); ++j) if(!strchr(" \n\r\t", v[j])) blank = false;
      if(where == 1 && blank) continue;
      MNode root; root.name = "r";
      root.attrs.push_back(std::make_pair(std::string("f"), std::string("1")));
      if(where == 0) root.attrs.push_back(std::make_pair(std::string("v"), v));
      root.attrs.push_back(std::make_pair(std::string("l"), std::string("2")));
      if(where == 1) { MNode x; x.isText = true; x.text = v; root.kids.push_back(x); }
      Xml::Element e = build(root);
      std::string cs = vf::fmt("sizes char=%d count=%d lead=%d tail=%d where=%s", (int)SPEC[c], n, p, t == 2 ? 3 : t, where ? "text" : "attribute");
      vf::crumb("xml.sizes", sh.token(), cs);
      vf::watchdog_arm(20000);
      String text = Xml::toString(e);
      vf::Exact ex(sstr(text), true);
      Xml::Parser ps; Xml::Element back;
      vf::hit("size_documents"); if(n >= 2) vf::hit("distinct_nontrivial");
      std::string why;
      if(!ps.parse(String::fromCString(ex.p, text.length()), back))
        vf::violation("C16:xml:roundtrip", cs, vf::fmt("serialised text is rejected: line %d column %d: %s", ps.getErrorLine(), ps.getErrorColumn(), (const char*)ps.getErrorString()));
      else if(!same(back, root, why, "/r")) vf::violation("C16:xml:roundtrip", cs, "re-parsed tree differs: " + why);
      else if(n == 50 && p == 1 && t == 1) vf::sample(cs, 3);
    }
  }
  if(mode == "sizes")
  { // wide trees: a root with n children for n = 0..--len and around every power of two up to 2^14 (per-document bookkeeping of the parser -
    // counters, stacks, position tables - has thresholds in the number of elements, not only in their nesting depth)
    std::vector<int> counts;
    vf::ledger().cap_bytes = 1024ll << 20;   // an element with an attribute owns a 500-bucket table
    for(int n = 0; n <= len; ++n) counts.push_back(n);
    for(int k = 8; k <= 14; ++k) for(int d = -1; d <= 1; ++d) if((1 << k) + d > len) counts.push_back((1 << k) + d);
    for(size_t ci = 0; ci < counts.size(); ++ci) for(int kind = 0; kind < 3; ++kind)
    {
      if(!sh.take()) continue;
      int n = counts[ci];
      MNode root; root.name = "r";
      for(int i = 0; i < n; ++i)
      {
        MNode c; c.name = "e";
        if(kind == 2) c.attrs.push_back(std::make_pair(std::string("i"), vf::fmt("%d", i)));
        if(kind == 1 && (i & 1)) { MNode x; x.isText = true; x.text = "t"; c.kids.push_back(x); }
        root.kids.push_back(c);
      }
      Xml::Element e = build(root);
      std::string cs = vf::fmt("sizes wide children=%d kind=%d", n, kind);
      vf::crumb("xml.sizes", sh.token(), cs);
      vf::watchdog_arm(60000);
      String text = Xml::toString(e);
      vf::Exact ex(sstr(text), true);
      Xml::Parser ps; Xml::Element back;
      vf::hit("size_documents"); vf::hit("wide_documents"); if(n >= 2) vf::hit("distinct_nontrivial");
      std::string why;
      if(!ps.parse(String::fromCString(ex.p, text.length()), back))
        vf::violation("C16:xml:roundtrip", cs, vf::fmt("serialised text is rejected: line %d column %d: %s", ps.getErrorLine(), ps.getErrorColumn(), (const char*)ps.getErrorString()));
      else if(!same(back, root, why, "/r")) vf::violation("C16:xml:roundtrip", cs, "re-parsed tree differs: " + why);
    }
  }
  vf::watchdog_disarm();
  vf::emit_counters();
  return 0;
}
