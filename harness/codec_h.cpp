// C18: exhaustive input enumeration for Unicode::toString/fromString/length/isValid, String integer conversions,
// fromHex and fromBase64 (explorer D).  Modes: codepoints, bytes, ints, hex, base64.
#define VF_LEDGER
#include <nstd/Unicode.hpp>
#include "engine/enum.hpp"
#include <string>
#include <limits.h>

static std::string refUtf8(unsigned cp)
{
  std::string s;
  if(cp < 0x80) s += (char)cp;
  else if(cp < 0x800) { s += (char)(0xC0 | (cp >> 6)); s += (char)(0x80 | (cp & 0x3F)); }
  else if(cp < 0x10000) { s += (char)(0xE0 | (cp >> 12)); s += (char)(0x80 | ((cp >> 6) & 0x3F)); s += (char)(0x80 | (cp & 0x3F)); }
  else { s += (char)(0xF0 | (cp >> 18)); s += (char)(0x80 | ((cp >> 12) & 0x3F)); s += (char)(0x80 | ((cp >> 6) & 0x3F)); s += (char)(0x80 | (cp & 0x3F)); }
  return s;
}
// strict decoder for the first sequence: returns length or 0 if not well-formed (overlong forms and > U+10FFFF rejected)
static int refDecode(const unsigned char* p, size_t n, unsigned& cp)
{
  if(n == 0) return 0;
  if(p[0] < 0x80) { cp = p[0]; return 1; }
  int len = (p[0] & 0xE0) == 0xC0 ? 2 : (p[0] & 0xF0) == 0xE0 ? 3 : (p[0] & 0xF8) == 0xF0 ? 4 : 0;
  if(!len || (size_t)len > n) return 0;
  for(int i = 1; i < len; ++i) if((p[i] & 0xC0) != 0x80) return 0;
  cp = len == 2 ? (p[0] & 0x1F) : len == 3 ? (p[0] & 0x0F) : (p[0] & 0x07);
  for(int i = 1; i < len; ++i) cp = (cp << 6) | (p[i] & 0x3F);
  static const unsigned minv[] = {0, 0, 0x80, 0x800, 0x10000};
  if(cp < minv[len] || cp > 0x10FFFF) return 0;
  return len;
}
static std::string sstr(const String& s) { return std::string((const char*)s, s.length()); }
static std::string refB64(const std::string& b)
{
  static const char* T = "ABCDEFGHIJKLMNOPQRSTUVWXYZabcdefghijklmnopqrstuvwxyz0123456789+/";
  std::string o;
  size_t i = 0;
  for(; i + 2 < b.size(); i += 3)
  {
    unsigned v = ((unsigned char)b[i] << 16) | ((unsigned char)b[i + 1] << 8) | (unsigned char)b[i + 2];
    o += T[v >> 18]; o += T[(v >> 12) & 63]; o += T[(v >> 6) & 63]; o += T[v & 63];
  }
  if(b.size() - i == 1) { unsigned v = (unsigned char)b[i] << 16; o += T[v >> 18]; o += T[(v >> 12) & 63]; o += "=="; }
  if(b.size() - i == 2) { unsigned v = ((unsigned char)b[i] << 16) | ((unsigned char)b[i + 1] << 8); o += T[v >> 18]; o += T[(v >> 12) & 63]; o += T[(v >> 6) & 63]; o += "="; }
  return o;
}

static void bytesCase(const std::string& b, const std::string& cs)
{
  vf::Exact e(b.data(), b.size());
  const char* p = e.p;
  usize n = b.size();
  usize l0 = n ? Unicode::length(p[0]) : 0;
  bool valid = Unicode::isValid(p, n);
  uint32 v = Unicode::fromString(p, n);
  vf::hit("byte_strings");
  unsigned cp = 0;
  int rl = refDecode((const unsigned char*)b.data(), b.size(), cp);
  if(rl)
  {
    vf::hit("wellformed_first_sequence");
    if(v != cp) vf::violation("C18:unicode:decode", cs, vf::fmt("fromString = U+%X, UTF-8 says U+%X", (unsigned)v, cp));
    if((int)l0 != rl) vf::violation("C18:unicode:length", cs, vf::fmt("length() = %d, UTF-8 says %d", (int)l0, rl));
  }
  // a string consisting of well-formed sequences only must be valid
  size_t off = 0; bool allGood = true;
  while(off < b.size()) { unsigned c; int l = refDecode((const unsigned char*)b.data() + off, b.size() - off, c); if(!l) { allGood = false; break; } off += l; }
  if(allGood && !valid) vf::violation("C18:unicode:isValid", cs, "well-formed UTF-8 reported invalid");
}

template<class T> static void intCase(T v, const char* fmt, const char* name, String (*from)(T), T (String::*to)() const)
{
  char buf[64]; snprintf(buf, sizeof(buf), fmt, v);
  String s = from(v);
  vf::hit("int_values");
  std::string cs = vf::fmt("%s value=%s", name, buf);
  if(sstr(s) != buf) vf::violation(std::string("C18:int:format:") + name, cs, "text is '" + sstr(s) + "'");
  T back = (s.*to)();
  if(back != v) { char b2[64]; snprintf(b2, sizeof(b2), fmt, back); vf::violation(std::string("C18:int:roundtrip:") + name, cs, std::string("parsed back as ") + b2); }
}
static String fInt(int v) { return String::fromInt(v); }
static String fUInt(uint v) { return String::fromUInt(v); }
static String fI64(int64 v) { return String::fromInt64(v); }
static String fU64(uint64 v) { return String::fromUInt64(v); }

int main(int argc, char** argv)
{
  vf::std_init(argc, argv);
  vf::Shard sh; sh.init(argc, argv);
  std::string mode = vf::arg(argc, argv, "--mode", "codepoints");

  if(mode == "codepoints")
  {
    // one case per block of 4096 code points
    for(unsigned blk = 0; blk < 0x110000 / 4096 + 2; ++blk)
    {
      if(!sh.take()) continue;
      vf::watchdog_arm(60000);
      for(unsigned cp = blk * 4096; cp < (blk + 1) * 4096; ++cp)
      {
        std::string cs = vf::fmt("codepoint U+%X", cp);
        vf::crumb("unicode.codepoint", sh.token(), cs);
        String s = Unicode::toString(cp);
        vf::hit("codepoints");
        if(cp >= 0x110000)
        {
          if(s.length() != 0) vf::violation("C18:unicode:encode", cs, "code point above U+10FFFF produced output");
          continue;
        }
        vf::hit("distinct_nontrivial");
        std::string want = refUtf8(cp);
        if(sstr(s) != want) { vf::violation("C18:unicode:encode", cs, "encoded as " + vf::hex(sstr(s)) + ", UTF-8 is " + vf::hex(want)); continue; }
        vf::Exact e(want.data(), want.size());
        uint32 back = Unicode::fromString(e.p, want.size());
        if(back != cp) vf::violation("C18:unicode:inverse", cs, vf::fmt("fromString(toString) = U+%X", (unsigned)back));
        if(Unicode::fromString(s) != cp) vf::violation("C18:unicode:inverse", cs, "fromString(String) differs");
        if(Unicode::length(e.p[0]) != want.size()) vf::violation("C18:unicode:length", cs, vf::fmt("length(lead byte) = %d, encoding has %d bytes", (int)Unicode::length(e.p[0]), (int)want.size()));
        if(!Unicode::isValid(e.p, want.size())) vf::violation("C18:unicode:isValid", cs, "own encoding reported invalid");
        // truncated copies must not be read beyond their end
        for(size_t cut = 0; cut < want.size(); ++cut) { vf::Exact t(want.data(), cut); Unicode::fromString(t.p, cut); Unicode::isValid(t.p, cut); }
        if(cp == 0x20AC || cp == 0x1F600 || cp == 0xD800) vf::sample(cs + " -> " + vf::hex(want), 3);
      }
    }
  }
  else if(mode == "bytes")
  {
    int full = (int)vf::argll(argc, argv, "--full", 3), cls = (int)vf::argll(argc, argv, "--class", 5);
    long long n = 0;
    { // every byte string up to `full` bytes
      vf::Odometer od(256, full);
      while(od.next())
      {
        if(!sh.take()) continue;
        std::string b; for(int i = 0; i < od.len; ++i) b += (char)od.d[i];
        std::string cs = "bytes " + vf::hex(b);
        vf::crumb("unicode.bytes", sh.token(), cs);
        if((n++ & 0x3ff) == 0) vf::watchdog_arm(20000);
        bytesCase(b, cs);
        if(od.len >= 2) vf::hit("distinct_nontrivial");
      }
    }
    static const unsigned char CL[] = {0x00, 0x41, 0x7F, 0x80, 0xBF, 0xC0, 0xC2, 0xDF, 0xE0, 0xEF, 0xF0, 0xF4, 0xF7, 0xF8, 0xFF};
    vf::Odometer od(15, cls, full + 1);
    while(od.next())
    {
      if(!sh.take()) continue;
      std::string b; for(int i = 0; i < od.len; ++i) b += (char)CL[od.d[i]];
      std::string cs = "bytes " + vf::hex(b);
      vf::crumb("unicode.bytes", sh.token(), cs);
      if((n++ & 0x3ff) == 0) vf::watchdog_arm(20000);
      bytesCase(b, cs);
      vf::hit("distinct_nontrivial");
      if(od.len == 4 && od.d[0] == 10 && od.d[1] == 3) vf::sample(cs, 3);
    }
  }
  else if(mode == "ints")
  {
    if(sh.take())
    {
      vf::crumb("ints", sh.token(), "integer conversions");
      vf::watchdog_arm(120000);
      std::vector<long long> vals; std::vector<unsigned long long> uvals;
      for(long long v = -32768; v <= 65535; ++v) { vals.push_back(v); if(v >= 0) uvals.push_back((unsigned long long)v); }
      for(int k = 0; k < 64; ++k) for(int d = -1; d <= 1; ++d)
      {
        unsigned long long p = (1ull << k) + (unsigned long long)d; uvals.push_back(p);
        if(k < 63) { vals.push_back((long long)p); vals.push_back(-(long long)p); }
      }
      vals.push_back(LLONG_MIN); vals.push_back(LLONG_MAX); vals.push_back(INT_MIN); vals.push_back(INT_MAX);
      uvals.push_back(ULLONG_MAX); uvals.push_back(UINT_MAX);
      for(size_t i = 0; i < vals.size(); ++i)
      {
        long long v = vals[i];
        if(v >= INT_MIN && v <= INT_MAX) intCase<int>((int)v, "%d", "int", fInt, &String::toInt);
        intCase<int64>((int64)v, "%ld", "int64", fI64, &String::toInt64);
        vf::hit("distinct_nontrivial");
      }
      for(size_t i = 0; i < uvals.size(); ++i)
      {
        unsigned long long v = uvals[i];
        if(v <= UINT_MAX) intCase<uint>((uint)v, "%u", "uint", fUInt, &String::toUInt);
        intCase<uint64>((uint64)v, "%lu", "uint64", fU64, &String::toUInt64);
        vf::hit("distinct_nontrivial");
      }
      vf::sample("int conversions: all values -32768..65535, +-2^k, +-2^k+-1, type limits", 1);
    }
  }
  else if(mode == "hex")
  {
    vf::Odometer od(256, 2);
    while(od.next())
    {
      if(!sh.take()) continue;
      std::string b; for(int i = 0; i < od.len; ++i) b += (char)od.d[i];
      std::string cs = "hex " + vf::hex(b);
      vf::crumb("hex", sh.token(), cs);
      vf::Exact e(b.data(), b.size());
      String h = String::fromHex((const byte*)e.p, b.size());
      std::string want = vf::hex(b); for(size_t i = 0; i < want.size(); ++i) want[i] = toupper(want[i]);
      vf::hit("hex_inputs"); if(od.len) vf::hit("distinct_nontrivial");
      if(sstr(h) != want) vf::violation("C18:hex", cs, "fromHex gives '" + sstr(h) + "'");
    }
    // every input length 3..300 (the result is sized from the input length) with three contents
    for(int len = 3; len <= 300; ++len) for(int g = 0; g < 3; ++g)
    {
      if(!sh.take()) continue;
      std::string b; for(int i = 0; i < len; ++i) b += (char)(g == 0 ? 0x00 : g == 1 ? 0xFF : (i * 37 + len));
      std::string cs = vf::fmt("hex length %d content %d", len, g);
      vf::crumb("hex", sh.token(), cs);
      vf::Exact e(b.data(), b.size());
      String h = String::fromHex((const byte*)e.p, b.size());
      std::string want = vf::hex(b); for(size_t i = 0; i < want.size(); ++i) want[i] = toupper(want[i]);
      vf::hit("hex_inputs"); vf::hit("distinct_nontrivial");
      if(sstr(h) != want || (usize)strlen((const char*)h) != h.length()) vf::violation("C18:hex", cs, "fromHex gives '" + sstr(h) + "'");
    }
  }
  else if(mode == "base64")
  {
    int glen = (int)vf::argll(argc, argv, "--garbage8", 6);
    long long n = 0;
    // decode(encode(b)) == b
    for(int phase = 0; phase < 2; ++phase)
    {
      static const unsigned char AL[] = {0x00, 0x3E, 0x3F, 0xFB, 0xFF, 'A'};
      vf::Odometer od(phase == 0 ? 256 : 6, phase == 0 ? 2 : 6, phase == 0 ? 0 : 3);
      while(od.next())
      {
        if(!sh.take()) continue;
        std::string b; for(int i = 0; i < od.len; ++i) b += (char)(phase == 0 ? od.d[i] : AL[od.d[i]]);
        std::string enc = refB64(b), cs = "base64 decode of '" + enc + "' (bytes " + vf::hex(b) + ")";
        vf::crumb("base64", sh.token(), cs);
        if((n++ & 0x3ff) == 0) vf::watchdog_arm(20000);
        String in(enc.data(), enc.size());
        String out = String::fromBase64(in);
        vf::hit("base64_roundtrips"); vf::hit("distinct_nontrivial");
        if(sstr(out) != b) vf::violation("C18:base64:decode", cs, "decoded bytes " + vf::hex(sstr(out)));
      }
    }
    // arbitrary byte strings: no out-of-bounds access (ASan), deterministic result
    for(int phase = 0; phase < 2; ++phase)
    {
      static const unsigned char SY[] = {0x00, '+', '/', '0', '=', 'A', 'z', '{', 0x7F, 0x80, 0xFF, '-', ' ', 0xC1, 0x9F, 'Q', '9', 0xFE, 0x81, '~'};
      int base = phase == 0 ? 20 : glen, len = phase == 0 ? 4 : 8;
      vf::Odometer od(base, len, len);
      while(od.next())
      {
        if(!sh.take()) continue;
        std::string b; for(int i = 0; i < od.len; ++i) b += (char)SY[od.d[i] + (phase == 1 ? 4 : 0)];
        std::string cs = "base64 arbitrary input " + vf::hex(b);
        vf::crumb("base64", sh.token(), cs);
        if((n++ & 0x3ff) == 0) vf::watchdog_arm(20000);
        String in(b.data(), b.size());
        String out = String::fromBase64(in);
        vf::hit("base64_arbitrary");
        if(out.length() > 3 * b.size() / 4) vf::violation("C18:base64:length", cs, "decoded more bytes than the input can hold");
        if(phase == 0 && od.d[0] == 9 && od.d[1] == 5) vf::sample(cs, 2);
      }
    }
    // every length, not only whole groups: all strings of 0..9 symbols over {Q = - /} and runs of 10..70 valid symbols with
    // every tail of up to two '=' or one foreign byte (the output buffer is sized from the input length)
    {
      static const char S4[] = {'Q', '=', '-', '/'};
      vf::Odometer od(4, 9);
      while(od.next())
      {
        if(!sh.take()) continue;
        std::string b; for(int i = 0; i < od.len; ++i) b += S4[od.d[i]];
        std::string cs = "base64 arbitrary input " + vf::hex(b);
        vf::crumb("base64", sh.token(), cs);
        if((n++ & 0x3ff) == 0) vf::watchdog_arm(20000);
        String in(b.data(), b.size());
        String out = String::fromBase64(in);
        vf::hit("base64_arbitrary"); vf::hit("base64_lengths");
        if(out.length() > 3 * b.size() / 4) vf::violation("C18:base64:length", cs, "decoded more bytes than the input can hold");
      }
      static const char* TAIL[] = {"", "=", "==", "-", "Q=", "=Q"};
      for(int len = 10; len <= 70; ++len) for(int t = 0; t < 6; ++t)
      {
        if(!sh.take()) continue;
        std::string tail = TAIL[t];
        std::string b(len - tail.size(), 'Q'); b += tail;
        std::string cs = "base64 arbitrary input " + vf::hex(b);
        vf::crumb("base64", sh.token(), cs);
        vf::watchdog_arm(20000);
        String in(b.data(), b.size());
        String out = String::fromBase64(in);
        vf::hit("base64_arbitrary"); vf::hit("base64_lengths");
        if(out.length() > 3 * b.size() / 4) vf::violation("C18:base64:length", cs, "decoded more bytes than the input can hold");
      }
    }
    // every byte value at every position of two well-formed groups, and every pair of byte values in the last two positions
    // (padding logic): a table lookup guarded by a range test is wrong for whole ranges of bytes, not for sampled ones
    for(int phase = 0; phase < 2; ++phase)
    {
      vf::Odometer od(256, phase == 0 ? 1 : 2, phase == 0 ? 1 : 2);
      while(od.next()) for(int pos = 0; pos < (phase == 0 ? 8 : 1); ++pos)
      {
        if(!sh.take()) continue;
        std::string b = "QUJDREVG";
        if(phase == 0) b[pos] = (char)od.d[0]; else { b[6] = (char)od.d[0]; b[7] = (char)od.d[1]; }
        std::string cs = "base64 byte sweep " + vf::hex(b);
        vf::crumb("base64", sh.token(), cs);
        if((n++ & 0x3ff) == 0) vf::watchdog_arm(20000);
        String in(b.data(), b.size());
        String out = String::fromBase64(in);
        vf::hit("base64_arbitrary");
        if(out.length() > 6) vf::violation("C18:base64:length", cs, "decoded more bytes than the input can hold");
      }
    }
  }
  vf::watchdog_disarm();
  vf::emit_counters();
  return 0;
}
