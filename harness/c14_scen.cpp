// C14 (threaded part): Server::interrupt() from a second thread against run(); the event descriptor and epoll_wait
// are modelled by the scheduler, so every placement of the interrupt relative to the poll is explored.
#include <nstd/Socket/Server.hpp>
#include <nstd/Thread.hpp>
#include "engine/sched/sched.h"

static Server* g_server;
static volatile int g_runsReturned, g_interruptsStarted, g_runsWanted;
static uint runner(void*)
{
  for(int i = 0; i < g_runsWanted; ++i)
  {
    long long t0 = vf_now_ns();
    g_server->run();
    if(vf_now_ns() - t0 >= 1000000000LL) vf_failf("C14:interrupt-ignored", "run() needed %lld ms of virtual time to return: the interrupt did not wake it, a timeout did", (vf_now_ns() - t0) / 1000000);
    if(g_runsReturned + 1 > g_interruptsStarted) vf_failf("C14:run-returned", "run() returned %d time(s) although interrupt() was called %d time(s)", g_runsReturned + 1, (int)g_interruptsStarted);
    g_runsReturned = g_runsReturned + 1;
  }
  return 0;
}
static uint interrupter(void* p)
{
  int n = (int)(long)p;
  for(int i = 0; i < n; ++i)
  {
    // a later interrupt is meant for the next run(): wait until the previous one has been consumed
    while(g_runsReturned < i) Thread::yield();
    g_interruptsStarted = g_interruptsStarted + 1;
    g_server->interrupt();
  }
  return 0;
}
static void scen(int variant)
{
  g_runsReturned = 0; g_interruptsStarted = 0;
  Server server; g_server = &server;
  Thread a, b;
  switch(variant)
  {
  case 0: g_runsWanted = 1; a.start(runner, 0); b.start(interrupter, (void*)1L); break;                               // interrupt during / before run
  case 1: g_runsWanted = 1; g_interruptsStarted = 1; server.interrupt(); a.start(runner, 0); break;                   // interrupt strictly before run
  case 2: g_runsWanted = 2; a.start(runner, 0); b.start(interrupter, (void*)2L); break;                               // two runs, two interrupts
  default: g_runsWanted = 1; g_interruptsStarted = 2; server.interrupt(); a.start(runner, 0); server.interrupt(); break; // a second interrupt racing with the consumption of the first
  }
  a.join(); b.join();
  vf_outcome("runs=%d", (int)g_runsReturned);
}
// ------------------------------------------------------------------------------------------------ host-name resolver
// Server::connect(host, ...) resolves the name on a pool thread (Future), which reports back through interrupt();
// the establisher may be removed, or the whole server destroyed, while that thread is still at work.
struct EstCb : public Server::Establisher::ICallback
{
  volatile int connected, abolished; bool removed; Server* server;
  EstCb() : connected(0), abolished(0), removed(false), server(0) {}
  virtual Server::Client::ICallback* onConnected(Server::Client&)
  {
    connected = connected + 1;
    vf_fail("C14:connected-to-unknown-host", "onConnected for a host name that does not resolve");
    return 0;
  }
  virtual void onAbolished()
  {
    if(removed) vf_fail("C14:establisher-after-remove", "onAbolished after remove() of the establisher had returned");
    abolished = abolished + 1;
    if(abolished > 1) vf_fail("C14:establisher-twice", "onAbolished delivered twice");
    if(server) server->interrupt();
  }
};
struct StopTimer : public Server::Timer::ICallback { Server* server; virtual void onActivated() { server->interrupt(); } };

static void resolverScen(int variant)
{
  EstCb cb;
  {
    Server server; cb.server = &server;
    Server::Establisher* e = server.connect(String("no-such-host.invalid"), 80, cb);
    if(!e) { vf_fail("C14:connect-failed", "connect(host) returned 0 before the name was even resolved"); return; }
    switch(variant)
    {
    case 0: // the loop waits for the resolver and reports the failure once
      server.run();
      if(cb.abolished != 1) vf_failf("C14:connect-not-dispatched", "run() returned with %d onAbolished notifications for the unresolvable host", (int)cb.abolished);
      break;
    case 1: // removed while the resolver may still be running: no notification, ever
    {
      server.remove(*e); cb.removed = true;
      StopTimer st; st.server = &server;
      server.time(5, st);
      server.run();
      break;
    }
    case 2: // destroyed while the resolver may still be running
      break;
    case 3: // interrupt() before run(): the wake-up that reports the finished resolver may carry the interrupt as well (one event
            // descriptor serves both); run() has to return whichever comes first
    {
      cb.server = 0;
      server.interrupt();
      long long t0 = vf_now_ns();
      server.run();
      if(vf_now_ns() - t0 >= 1000000000LL) vf_failf("C14:interrupt-ignored", "run() returned %lld ms after a pending interrupt(): only a timeout ended it", (vf_now_ns() - t0) / 1000000);
      break;
    }
    case 5: // reconnect: after the first attempt was abolished a second connect(host) is started and only then the first establisher is
            // removed - removing one object must not take the other's pending notification away
    {
      server.run();
      if(cb.abolished != 1) { vf_failf("C14:connect-not-dispatched", "run() returned with %d onAbolished notifications for the unresolvable host", (int)cb.abolished); break; }
      EstCb cb2; cb2.server = &server;
      Server::Establisher* e2 = server.connect(String("other-host.invalid"), 81, cb2);
      if(!e2) { vf_fail("C14:connect-failed", "second connect(host) returned 0"); break; }
      server.remove(*e); cb.removed = true;
      StopTimer st; st.server = &server;
      server.time(900, st);     // bounds the wait in virtual time: without it a lost notification is an endless run()
      server.run();
      if(cb2.abolished != 1) vf_failf("C14:connect-not-dispatched", "the second establisher got %d onAbolished notifications after the first one was removed", (int)cb2.abolished);
      break;
    }
    default: // interrupt() from another thread while the resolver reports back
    {
      cb.server = 0;
      g_server = &server; g_runsReturned = 0; g_interruptsStarted = 0;
      Thread t; t.start(interrupter, (void*)1L);
      long long t0 = vf_now_ns();
      server.run();
      if(vf_now_ns() - t0 >= 1000000000LL) vf_failf("C14:interrupt-ignored", "run() returned %lld ms after it was started although interrupt() was called: only a timeout ended it", (vf_now_ns() - t0) / 1000000);
      t.join();
      break;
    }
    }
  }
  vf_mark_library_threads_daemon();   // the global pool keeps its idle workers
  vf_outcome("abolished=%d", (int)cb.abolished);
}
extern "C" int vf_scenario_count(void) { return 2; }
extern "C" const char* vf_scenario_name(int id) { return id == 0 ? "interrupt" : "resolver"; }
extern "C" int vf_scenario_variants(int id) { return id == 0 ? 4 : 6; }
extern "C" void vf_scenario_run(int id, int variant) { if(id == 0) scen(variant); else resolverScen(variant); }
