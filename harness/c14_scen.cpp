// C14 (threaded part): Server::interrupt() from a second thread against run(); the event descriptor and epoll_wait
// are modelled by the scheduler, so every placement of the interrupt relative to the poll is explored.
#include <nstd/Socket/Server.hpp>
#include <nstd/Thread.hpp>
#include "engine/sched/sched.h"

static Server* g_server;
static volatile int g_runsReturned, g_interruptsStarted, g_runsWanted;
static uint runner(void*)
{
  for(int i = 0; i < g_runsWanted; ++i)
  {
    g_server->run();
    if(g_runsReturned + 1 > g_interruptsStarted) vf_failf("C14:run-returned", "run() returned %d time(s) although interrupt() was called %d time(s)", g_runsReturned + 1, (int)g_interruptsStarted);
    g_runsReturned = g_runsReturned + 1;
  }
  return 0;
}
static uint interrupter(void* p)
{
  int n = (int)(long)p;
  for(int i = 0; i < n; ++i)
  {
    // a later interrupt is meant for the next run(): wait until the previous one has been consumed
    while(g_runsReturned < i) Thread::yield();
    g_interruptsStarted = g_interruptsStarted + 1;
    g_server->interrupt();
  }
  return 0;
}
static void scen(int variant)
{
  g_runsReturned = 0; g_interruptsStarted = 0;
  Server server; g_server = &server;
  Thread a, b;
  switch(variant)
  {
  case 0: g_runsWanted = 1; a.start(runner, 0); b.start(interrupter, (void*)1L); break;                               // interrupt during / before run
  case 1: g_runsWanted = 1; g_interruptsStarted = 1; server.interrupt(); a.start(runner, 0); break;                   // interrupt strictly before run
  case 2: g_runsWanted = 2; a.start(runner, 0); b.start(interrupter, (void*)2L); break;                               // two runs, two interrupts
  default: g_runsWanted = 1; g_interruptsStarted = 2; server.interrupt(); a.start(runner, 0); server.interrupt(); break; // a second interrupt racing with the consumption of the first
  }
  a.join(); b.join();
  vf_outcome("runs=%d", (int)g_runsReturned);
}
extern "C" int vf_scenario_count(void) { return 1; }
extern "C" const char* vf_scenario_name(int) { return "interrupt"; }
extern "C" int vf_scenario_variants(int) { return 4; }
extern "C" void vf_scenario_run(int, int variant) { scen(variant); }
