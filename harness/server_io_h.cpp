// C13: Server clients deliver written bytes completely and in order, whatever the OS answers to send().
// Single-threaded; the environment (send outcomes, peer reads, time) and the application (writes, suspend/resume,
// peer writes at every 1 ms timer turn) are chosen by the explorer.
#define VF_LEDGER
#include <nstd/Socket/Server.hpp>
#include <nstd/Socket/Socket.hpp>
#include "engine/choice.hpp"
#include "engine/enum.hpp"
#include <string>
#include <fcntl.h>
#include <errno.h>
#include <sys/socket.h>
#include <sys/epoll.h>

struct Cfg { int turns; int envBound; int maxWriteTotal; };
static Cfg cfg;

struct World;
static World* W;

struct World : public Server::Client::ICallback, public Server::Timer::ICallback
{
  vf::Chooser* ch;
  Server* server; Socket* peer; Server::Client* client; Server::Timer* timer;
  long long clockMs;
  int deviations, polls, turn;
  bool failed; std::string failKey, failMsg, trace;
  bool tracing;
  // model
  std::string accepted;       // concatenation of the data of successful write() calls
  std::string received;       // bytes the peer has read
  size_t handedToOs;          // bytes passed to the real send() for the client's descriptor
  bool suspended, backlogNonEmpty;
  int onWriteCount, expectedOnWrite, onReadCount, onClosedCount;
  std::string peerSent, clientRead;
  unsigned char nextByte, nextPeerByte;
  int clientFd;
  bool stopping;
  bool notWritable;   // after a would-block / partial answer the descriptor is not reported writable until time has advanced

  World() : ch(0), server(0), peer(0), client(0), timer(0), clockMs(100000), deviations(0), polls(0), turn(0), failed(false), tracing(false), handedToOs(0), suspended(false), backlogNonEmpty(false),
    onWriteCount(0), expectedOnWrite(0), onReadCount(0), onClosedCount(0), nextByte(1), nextPeerByte(101), clientFd(-1), stopping(false), notWritable(false) {}

  void fail(const std::string& k, const std::string& m) { if(!failed) { failed = true; failKey = k; failMsg = m; } }
  int envChoice(int n, const char* what)
  {
    if(n <= 1 || deviations >= cfg.envBound || stopping) return 0;
    int c = ch->choose(n);
    if(c) { ++deviations; if(tracing) printf("    [env] %s: alternative %d\n", what, c); }
    return c;
  }

  // ------------------------------------------------------------ application turn (1 ms timer)
  virtual void onActivated()
  {
    ++turn;
    if(turn > cfg.turns)
    {
      // no more actions: end the run once the backlog has drained
      if(turn > cfg.turns + 12 || (client && client->getSendBufferSize() == 0)) { stopping = true; server->interrupt(); }
      return;
    }
    static const char* names[] = {"nothing", "write(1)", "write(3)", "write(8)", "suspend", "resume", "peer writes 2"};
    int a = ch->choose(7);
    vf::hit("app_actions");
    if(tracing) printf("  turn %d: %s\n", turn, names[a]);
    trace += std::string(trace.empty() ? "" : "; ") + names[a];
    switch(a)
    {
    case 1: doWrite(1); break;
    case 2: doWrite(3); break;
    case 3: doWrite(8); break;
    case 4: client->suspend(); suspended = true; if(!client->isSuspended()) fail("C13:suspend-state", "isSuspended() is false after suspend()"); break;
    case 5: client->resume(); suspended = false; if(client->isSuspended()) fail("C13:suspend-state", "isSuspended() is true after resume()"); break;
    case 6: { unsigned char b[2] = {nextPeerByte, (unsigned char)(nextPeerByte + 1)}; nextPeerByte += 2; if(::write((int)peer->getFileDescriptor(), b, 2) == 2) peerSent.append((char*)b, 2); break; }
    default: break;
    }
  }
  void doWrite(int n)
  {
    if((int)accepted.size() + n > cfg.maxWriteTotal) return;
    std::string d; for(int i = 0; i < n; ++i) d += (char)nextByte++;
    // exactly sized heap copy of the caller's data
    vf::Exact e(d.data(), d.size());
    usize postponed = 12345;
    bool ok = client->write((const byte*)e.p, d.size(), &postponed);
    vf::hit("writes");
    if(!ok) { fail("C13:write-failed", "write() returned false although the environment reported no error"); return; }
    accepted += d;
    size_t backlog = accepted.size() - handedToOs;
    if(postponed != backlog) fail("C13:postponed", vf::fmt("write(%d) reported %d postponed bytes, accepted minus handed to the OS is %d", n, (int)postponed, (int)backlog));
    if(client->getSendBufferSize() != backlog) fail("C13:send-buffer-size", vf::fmt("getSendBufferSize() = %d, accepted minus handed to the OS is %d", (int)client->getSendBufferSize(), (int)backlog));
    if(backlog > 0 && !backlogNonEmpty) { backlogNonEmpty = true; ++expectedOnWrite; vf::hit("backlog_episodes"); }
  }
  // ------------------------------------------------------------ client callbacks
  virtual void onRead()
  {
    ++onReadCount;
    if(suspended) fail("C13:read-while-suspended", "onRead was delivered to a suspended client");
    byte buf[16]; usize n;
    while(client->read(buf, sizeof(buf), n)) clientRead.append((char*)buf, n);
    if(clientRead != peerSent.substr(0, clientRead.size())) fail("C13:read-data", "the client read bytes the peer did not send in this order");
  }
  virtual void onWrite()
  {
    ++onWriteCount;
    if(client->getSendBufferSize() != 0) fail("C13:onWrite-early", vf::fmt("onWrite delivered while %d bytes are still buffered", (int)client->getSendBufferSize()));
    if(!backlogNonEmpty) fail("C13:onWrite-spurious", "onWrite delivered although no backlog had built up since the last one");
    if(accepted.size() != handedToOs) fail("C13:onWrite-early", "onWrite delivered although accepted bytes have not all been handed to the OS");
    backlogNonEmpty = false;
  }
  virtual void onClosed() { ++onClosedCount; fail("C13:closed", "onClosed delivered although neither side closed or failed"); }

  // ------------------------------------------------------------ environment
  void peerReads(bool all)
  {
    char buf[256];
    for(;;)
    {
      ssize_t n = ::recv((int)peer->getFileDescriptor(), buf, all ? sizeof(buf) : 1, MSG_DONTWAIT);
      if(n <= 0) break;
      received.append(buf, (size_t)n);
      if(!all) break;
    }
    if(received != accepted.substr(0, received.size()))
      fail("C13:stream", "the peer received '" + vf::hex(received) + "', which is not a prefix of the accepted data '" + vf::hex(accepted) + "'");
  }

  void run(vf::Chooser& c, bool trc)
  {
    ch = &c; tracing = trc; W = this;
    server = new Server(); peer = new Socket();
    client = server->pair(*this, *peer);
    if(!client) { fprintf(stderr, "pair failed\n"); _exit(3); }
    clientFd = (int)client->getSocket().getFileDescriptor();
    fcntl((int)peer->getFileDescriptor(), F_SETFL, O_NONBLOCK);
    timer = server->time(1, *this);
    server->run();
    // drain: everything handed to the OS is readable by the peer now
    peerReads(true);
    if(!failed)
    {
      if(handedToOs != accepted.size()) fail("C13:not-drained", vf::fmt("%d of %d accepted bytes were never handed to the OS", (int)(accepted.size() - handedToOs), (int)accepted.size()));
      else if(received != accepted) fail("C13:stream", "the peer received '" + vf::hex(received) + "', accepted data is '" + vf::hex(accepted) + "'");
      if(onWriteCount != expectedOnWrite) fail("C13:onWrite-count", vf::fmt("%d onWrite notifications for %d backlog episodes that drained", onWriteCount, expectedOnWrite));
      if(!suspended && clientRead != peerSent) fail("C13:read-missed", "a resumed client did not get the data its peer sent");
    }
    delete server; delete peer; server = 0; peer = 0;
  }
};

extern "C" ssize_t vf_send(int fd, const void* buf, size_t n, int flags)
{
  World* w = W;
  if(!w || fd != w->clientFd) return ::send(fd, buf, n, flags);
  // outcomes: full (default), would-block, partial 1, partial n/2, partial n-1
  size_t opts[5]; int k = 0;
  opts[k++] = n; opts[k++] = 0;
  if(n > 1) opts[k++] = 1;
  if(n / 2 > 1) opts[k++] = n / 2;
  if(n > 2 && n - 1 != n / 2) opts[k++] = n - 1;
  int c = w->envChoice(k, "send");
  size_t take = opts[c];
  vf::hit("send_calls"); if(c) vf::hit("send_deviations");
  if(take < n) w->notWritable = true;
  if(take == 0) { errno = EAGAIN; return -1; }
  ssize_t r = ::send(fd, buf, take, flags);
  if(r > 0) w->handedToOs += (size_t)r;
  return r;
}
extern "C" ssize_t vf_recv(int fd, void* buf, size_t n, int flags) { return ::recv(fd, buf, n, flags); }
extern "C" int vf_clock_gettime(clockid_t, struct timespec* ts)
{
  long long ms = W ? W->clockMs : 100000;
  ts->tv_sec = ms / 1000; ts->tv_nsec = (ms % 1000) * 1000000L;
  return 0;
}
extern "C" int vf_epoll_wait(int epfd, struct epoll_event* events, int maxevents, int timeout)
{
  World* w = W;
  if(!w) return ::epoll_wait(epfd, events, maxevents, timeout);
  if(++w->polls > 400) { w->fail("C13:no-progress", "the event loop polled 400 times without finishing"); w->stopping = true; w->server->interrupt(); }
  // the peer's turn: read everything (default) or nothing / one byte
  int pr = w->envChoice(3, "peer read");
  if(pr == 0) w->peerReads(true); else if(pr == 2) w->peerReads(false);
  int n = ::epoll_wait(epfd, events, maxevents, 0);
  if(w->notWritable)
  { // a descriptor that answered would-block / partial is not writable again before time has passed
    int k = 0;
    for(int i = 0; i < n; ++i)
    {
      // the client's registration is the only one that can carry EPOLLOUT here
      if(events[i].data.ptr && (events[i].events & EPOLLOUT)) { events[i].events &= ~(uint32_t)EPOLLOUT; if(!(events[i].events & (EPOLLIN | EPOLLRDHUP | EPOLLHUP | EPOLLERR))) continue; }
      events[k++] = events[i];
    }
    n = k;
  }
  if(n == 0 && timeout != 0) { w->clockMs += timeout > 0 ? timeout : 1; w->notWritable = false; }
  return n;
}

struct Runner
{
  std::map<std::string, int> keys;
  void operator()(vf::Chooser& ch, bool trace)
  {
    World w;
    w.run(ch, trace);
    if(w.expectedOnWrite) vf::hit("executions_with_backlog");
    if(w.failed)
    {
      vf::hit("violating_executions");
      if(++keys[w.failKey] <= 3) vf::violation(w.failKey, "choices=" + ch.path() + " app: " + w.trace, w.failMsg);
      if(trace) printf("REPRODUCED %s: %s\n", w.failKey.c_str(), w.failMsg.c_str());
    }
    else if(w.expectedOnWrite >= 2) vf::sample("choices=" + ch.path() + " app: " + w.trace + " -> peer received " + vf::hex(w.received), 3);
    W = 0;
  }
};

int main(int argc, char** argv)
{
  vf::std_init(argc, argv);
  cfg.turns = (int)vf::argll(argc, argv, "--turns", 4);
  cfg.envBound = (int)vf::argll(argc, argv, "--eb", 2);
  cfg.maxWriteTotal = (int)vf::argll(argc, argv, "--max-bytes", 40);
  Runner r;
  vf::dfs(argc, argv, r, "server-io");
  return 0;
}
