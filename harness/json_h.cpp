// C15: exhaustive input enumeration for Json::parse / toString / stripComments (explorer D).
//   --mode parse   : every token string up to --len tokens, exactly sized heap copy, ASan, error position oracle
//   --mode round   : every value tree up to --nodes nodes, parse(toString(v)) == v
//   --mode strip   : every string up to --len symbols vs a reference comment stripper
//   --mode deep    : fixed deep nestings (1, 10, 100, 1000)
#define VF_LEDGER
#include <nstd/Document/Json.hpp>
#include "engine/enum.hpp"
#include <string>
#include <limits.h>

static const char* TOK[] = {"{", "}", "[", "]", ",", ":", "\"", "\\", "u", "d", "0", "a", "f", "1", "-", ".", "e", "/", "*", " ", "\n", "\r", "\x01", "\x80", "\xff",
  "true", "null", "\xc3\xa9", "\\ud83d", "\\ude00", "t", "n", "false"};
static const int NTOK = 33;

// line structure as the parser documents it: CRLF, CR and LF each end a line
static void lineInfo(const std::string& s, std::vector<int>& lens)
{
  lens.clear();
  int cur = 0;
  for(size_t i = 0; i < s.size(); ++i)
  {
    if(s[i] == '\r') { lens.push_back(cur); cur = 0; if(i + 1 < s.size() && s[i + 1] == '\n') ++i; }
    else if(s[i] == '\n') { lens.push_back(cur); cur = 0; }
    else ++cur;
  }
  lens.push_back(cur);
}

static bool checkErrorPos(const std::string& text, int line, int col, std::string& why)
{
  std::vector<int> lens;
  lineInfo(text, lens);
  if(line < 1 || line > (int)lens.size()) { why = vf::fmt("error line %d outside 1..%d", line, (int)lens.size()); return false; }
  if(col < 1 || col > lens[line - 1] + 1) { why = vf::fmt("error column %d outside 1..%d of line %d", col, lens[line - 1] + 1, line); return false; }
  return true;
}

static bool parseCase(const std::string& text, const std::string& cs)
{
  vf::Exact e(text, true);
  Json::Parser p;
  Variant v;
  bool ok = p.parse((const char*)e.p, v);
  vf::hit("parse_inputs");
  if(ok) { vf::hit("parse_accepted"); return true; }
  vf::hit("parse_rejected");
  std::string why;
  if(!checkErrorPos(text, p.getErrorLine(), p.getErrorColumn(), why))
    vf::violation("C15:json:error-position", cs, why);
  return false;
}

// ---------------------------------------------------------------- round trip
struct Gen
{
  std::vector<Variant> atomsFull, atomsSmall;
  std::vector<String> keys;
  Gen()
  {
    const char* alpha[] = {"a", "\"", "\\", "/", "\n", "\r", "\t", "\x01", "\x7f", "\xc3\xa9", "\xf0\x9f\x98\x80"};
    std::vector<std::string> strs;
    strs.push_back("");
    for(int i = 0; i < 11; ++i) strs.push_back(alpha[i]);
    for(int i = 0; i < 11; ++i) for(int j = 0; j < 11; ++j) strs.push_back(std::string(alpha[i]) + alpha[j]);
    // every 7-bit byte on its own and between two letters: an escape table has one entry per character, a sample of them proves nothing
    size_t sampled = strs.size();
    for(int b = 1; b < 0x80; ++b) { strs.push_back(std::string(1, (char)b)); strs.push_back(std::string("x") + (char)b + "y"); }
    (void)sampled;
    Variant n;
    atomsFull.push_back(n); atomsFull.push_back(Variant(true)); atomsFull.push_back(Variant(false));
    atomsFull.push_back(Variant(0)); atomsFull.push_back(Variant(-1)); atomsFull.push_back(Variant(INT_MIN)); atomsFull.push_back(Variant(INT_MAX));
    atomsFull.push_back(Variant((int64)LLONG_MIN)); atomsFull.push_back(Variant((int64)LLONG_MAX)); atomsFull.push_back(Variant((int64)5));
    // digit-count and precision boundaries of 64-bit integers (values a double cannot hold)
    atomsFull.push_back(Variant((int64)(LLONG_MIN + 1))); atomsFull.push_back(Variant((int64)(LLONG_MAX - 1)));
    atomsFull.push_back(Variant((int64)-1000000000000000001LL)); atomsFull.push_back(Variant((int64)-999999999999999999LL));
    atomsFull.push_back(Variant((int64)999999999999999999LL)); atomsFull.push_back(Variant((int64)9007199254740993LL));
    for(size_t i = 0; i < strs.size(); ++i) atomsFull.push_back(Variant(String(strs[i].data(), strs[i].size())));
    size_t pick[] = {0, 1, 3, 4, 7, 12, 16, 17, 18, 19, 21, 26};
    for(size_t i = 0; i < sizeof(pick) / sizeof(*pick); ++i) atomsSmall.push_back(atomsFull[pick[i]]);
    keys.push_back(String("")); keys.push_back(String("a")); keys.push_back(String("\"")); keys.push_back(String("\n\\"));
  }
  // all trees with exactly n nodes
  void trees(int n, bool full, std::vector<Variant>& out)
  {
    const std::vector<Variant>& atoms = full ? atomsFull : atomsSmall;
    if(n == 1)
    {
      out = atoms;
      out.push_back(Variant(List<Variant>()));
      out.push_back(Variant(HashMap<String, Variant>()));
      return;
    }
    // list / map with children whose node counts sum to n-1 (compositions)
    std::vector<std::vector<int> > comps;
    std::vector<int> cur;
    compositions(n - 1, cur, comps);
    for(size_t c = 0; c < comps.size(); ++c)
    {
      std::vector<std::vector<Variant> > kids(comps[c].size());
      for(size_t k = 0; k < comps[c].size(); ++k) trees(comps[c][k], full && comps[c].size() == 1, kids[k]);
      std::vector<size_t> idx(kids.size(), 0);
      for(;;)
      {
        List<Variant> l; HashMap<String, Variant> h;
        for(size_t k = 0; k < kids.size(); ++k) { l.append(kids[k][idx[k]]); if(k < keys.size()) h.append(keys[k], kids[k][idx[k]]); }
        out.push_back(Variant(l));
        if(kids.size() <= keys.size()) out.push_back(Variant(h));
        size_t k = 0;
        while(k < kids.size() && ++idx[k] == kids[k].size()) { idx[k] = 0; ++k; }
        if(k == kids.size()) break;
      }
    }
  }
  void compositions(int n, std::vector<int>& cur, std::vector<std::vector<int> >& out)
  {
    if(n == 0) { out.push_back(cur); return; }
    for(int k = 1; k <= n; ++k) { cur.push_back(k); compositions(n - k, cur, out); cur.pop_back(); }
  }
};

// Variant::operator== converts between number types; an integer must come back as an integer with the identical value
static bool isInteger(const Variant& v) { Variant::Type t = v.getType(); return t == Variant::intType || t == Variant::uintType || t == Variant::int64Type || t == Variant::uint64Type; }
static bool sameNumbers(const Variant& a, const Variant& b)
{
  if(isInteger(a)) return isInteger(b) && a.toInt64() == b.toInt64() && a.toUInt64() == b.toUInt64();
  if(a.getType() == Variant::listType)
  {
    if(b.getType() != Variant::listType || a.toList().size() != b.toList().size()) return false;
    List<Variant>::Iterator j = b.toList().begin();
    for(List<Variant>::Iterator i = a.toList().begin(), end = a.toList().end(); i != end; ++i, ++j) if(!sameNumbers(*i, *j)) return false;
    return true;
  }
  if(a.getType() == Variant::mapType)
  {
    if(b.getType() != Variant::mapType || a.toMap().size() != b.toMap().size()) return false;
    HashMap<String, Variant>::Iterator j = b.toMap().begin();
    for(HashMap<String, Variant>::Iterator i = a.toMap().begin(), end = a.toMap().end(); i != end; ++i, ++j) if(!sameNumbers(*i, *j)) return false;
    return true;
  }
  return true;
}

// ---------------------------------------------------------------- stripComments reference
static std::string stripRef(const std::string& s)
{
  std::string out;
  size_t i = 0, n = s.size();
  while(i < n)
  {
    if(s[i] == '/' && i + 1 < n && s[i + 1] == '/') { while(i < n && s[i] != '\r' && s[i] != '\n') ++i; }
    else if(s[i] == '/' && i + 1 < n && s[i + 1] == '*')
    {
      i += 2;
      for(;;)
      {
        if(i >= n) break;
        if(s[i] == '*' && i + 1 < n && s[i + 1] == '/') { i += 2; break; }
        if(s[i] == '\r' || s[i] == '\n') out += s[i];
        ++i;
      }
    }
    else if(s[i] == '"')
    {
      out += s[i++];
      while(i < n)
      {
        if(s[i] == '\\' && i + 1 < n) { out += s[i]; out += s[i + 1]; i += 2; }
        else if(s[i] == '"') { out += s[i++]; break; }
        else out += s[i++];
      }
    }
    else out += s[i++];
  }
  return out;
}

int main(int argc, char** argv)
{
  vf::std_init(argc, argv);
  vf::Shard sh; sh.init(argc, argv);
  std::string mode = vf::arg(argc, argv, "--mode", "parse");
  int len = (int)vf::argll(argc, argv, "--len", 4);
  const char* one = vf::arg(argc, argv, "--replay-case");

  if(mode == "parse")
  {
    int ntok = (int)vf::argll(argc, argv, "--ntok", NTOK);
    int preflen = (int)vf::argll(argc, argv, "--preflen", 4);
    vf::Odometer od(ntok, len);
    long long n = 0;
    while(od.next())
    {
      if(!sh.take()) continue;
      std::string text, cs = "parse tokens=";
      for(int i = 0; i < od.len; ++i) { text += TOK[od.d[i]]; cs += vf::fmt(i ? ",%d" : "%d", od.d[i]); }
      cs += " text='" + vf::show(text) + "'";
      vf::crumb("json.parse", sh.token(), cs);
      if((n++ & 0xff) == 0) vf::watchdog_arm(20000);
      bool accepted = parseCase(text, cs);
      // every byte prefix of every accepted document of up to --preflen tokens: truncation inside a keyword, an escape or a number
      // (the token alphabet only ever ends a text at a token boundary)
      if(accepted && od.len <= preflen)
        for(size_t k = 1; k < text.size(); ++k) { parseCase(text.substr(0, k), cs + vf::fmt(" truncated to %d bytes", (int)k)); vf::hit("prefix_inputs"); }
      if(od.len >= 2) vf::hit("distinct_nontrivial");
      if(od.len == 4 && od.d[0] == 2 && od.d[1] == 6) vf::sample(cs, 3);
    }
  }
  else if(mode == "reuse")
  { // histories on ONE Parser object: parse(doc1) then parse(doc2) must behave exactly like a fresh parser on doc2
    // (the statement is about every parse, not about the first one of an object)
    int ntok = (int)vf::argll(argc, argv, "--ntok", NTOK);
    int len2 = (int)vf::argll(argc, argv, "--len2", len);
    struct Doc { std::string text; int ntok; vf::Exact* e; bool ok; int line, col; std::string err, val; };
    std::vector<Doc*> docs;
    {
      vf::Odometer od(ntok, len > len2 ? len : len2);
      while(od.next())
      {
        Doc* d = new Doc; d->ntok = od.len;
        for(int i = 0; i < od.len; ++i) d->text += TOK[od.d[i]];
        d->e = new vf::Exact(d->text, true);
        Json::Parser f; Variant v;
        d->ok = f.parse((const char*)d->e->p, v);
        d->line = f.getErrorLine(); d->col = f.getErrorColumn();
        String es = f.getErrorString(); d->err.assign((const char*)es, es.length());
        if(d->ok) { String t = Json::toString(v); d->val.assign((const char*)t, t.length()); }
        d->line = d->ok ? 0 : d->line; d->col = d->ok ? 0 : d->col; if(d->ok) d->err.clear();
        docs.push_back(d);
      }
    }
    // a few complete first documents as well (the token strings above are mostly rejected): marked with token count 0
    {
      static const char* FIRST[] = {"[1,[2],{\"a\":3}]", "{\"a\":1,\"b\":[2]}", "\"s\"", "5", "[1,\n2,\n"};
      for(size_t i = 0; i < sizeof(FIRST) / sizeof(*FIRST); ++i)
      {
        Doc* d = new Doc; d->ntok = 0; d->text = FIRST[i]; d->e = new vf::Exact(d->text, true); d->ok = false; d->line = d->col = 0;
        docs.insert(docs.begin(), d);
      }
    }
    long long n = 0;
    for(size_t i = 0; i < docs.size(); ++i)
    {
      if(docs[i]->ntok > len) break;   // the vector is ordered by token count
      if(!sh.take()) continue;
      for(size_t j = 0; j < docs.size() && docs[j]->ntok <= len2; ++j)
      {
        if(docs[j]->ntok == 0 && !docs[j]->text.empty()) continue;   // fixed first documents are not used as second ones
        if((n++ & 0xfff) == 0) { vf::watchdog_arm(20000); vf::crumb("json.reuse", sh.token(), "reuse first='" + vf::show(docs[i]->text) + "' second='" + vf::show(docs[j]->text) + "'"); }
        // the result variable is reused as well: the second parse must replace whatever the first one left in it
        Json::Parser p; Variant v2;
        p.parse((const char*)docs[i]->e->p, v2);
        bool ok = p.parse((const char*)docs[j]->e->p, v2);
        vf::hit("reuse_pairs"); vf::hit("parse_inputs"); vf::hit("distinct_nontrivial");
        const Doc& d = *docs[j];
        bool same = ok == d.ok;
        std::string got;
        if(same && ok) { String t = Json::toString(v2); got.assign((const char*)t, t.length()); same = got == d.val; }
        if(same && !ok)
        {
          String es = p.getErrorString();
          same = p.getErrorLine() == d.line && p.getErrorColumn() == d.col && std::string((const char*)es, es.length()) == d.err;
        }
        if(!same)
        {
          String es = p.getErrorString();
          vf::violation("C15:json:parser-reuse", "reuse first='" + vf::show(docs[i]->text) + "' second='" + vf::show(d.text) + "'",
            vf::fmt("second parse on the same Parser: ok=%d line %d column %d '%s' value '%s'; a fresh Parser: ok=%d line %d column %d '%s' value '%s'",
              (int)ok, ok ? 0 : p.getErrorLine(), ok ? 0 : p.getErrorColumn(), ok ? "" : (const char*)es, vf::show(got).c_str(), (int)d.ok, d.line, d.col, d.err.c_str(), vf::show(d.val).c_str()));
        }
      }
    }
  }
  else if(mode == "deep")
  {
    static const int depths[] = {1, 10, 100, 1000};
    // kinds 3 / 4: every level also holds a scalar / an empty container before the next level opens
    for(int k = 0; k < 5; ++k) for(int d = 0; d < 4; ++d) for(int closed = 0; closed < 2; ++closed)
    {
      if(!sh.take()) continue;
      std::string text;
      for(int i = 0; i < depths[d]; ++i) text += k == 0 ? "[" : k == 1 ? "{\"a\":" : k == 3 ? "[0," : k == 4 ? "[[],{}," : (i & 1) ? "{\"a\":" : "[";
      text += "1";
      if(closed) for(int i = depths[d] - 1; i >= 0; --i) text += (k == 0 || k >= 3) ? "]" : k == 1 ? "}" : (i & 1) ? "}" : "]";
      std::string cs = vf::fmt("deep kind=%d depth=%d closed=%d", k, depths[d], closed);
      vf::crumb("json.deep", sh.token(), cs);
      vf::watchdog_arm(30000);
      vf::Exact e(text, true);
      Json::Parser p; Variant v;
      bool ok = p.parse((const char*)e.p, v);
      vf::hit("deep_inputs"); vf::hit("distinct_nontrivial");
      if(ok != (closed != 0)) vf::violation("C15:json:deep-nesting", cs, closed ? "well-formed nested document rejected" : "truncated nested document accepted");
      std::string why;
      if(!ok && !checkErrorPos(text, p.getErrorLine(), p.getErrorColumn(), why)) vf::violation("C15:json:error-position", cs, why);
      if(ok)
      { // round trip of the deep tree
        String out = Json::toString(v);
        Variant w;
        if(!Json::parse(out, w) || !(w == v)) vf::violation("C15:json:roundtrip", cs, "deep tree does not survive toString/parse");
      }
      vf::sample(cs, 2);
    }
  }
  if(mode == "deep")
  { // wide documents: n members for n = 0..300 and around every power of two up to 2^14, as array of scalars, array of empty containers, object
    std::vector<int> counts;
    for(int n = 0; n <= 300; ++n) counts.push_back(n);
    for(int k = 9; k <= 14; ++k) for(int d = -1; d <= 1; ++d) counts.push_back((1 << k) + d);
    for(size_t ci = 0; ci < counts.size(); ++ci) for(int kind = 0; kind < 3; ++kind)
    {
      if(!sh.take()) continue;
      int n = counts[ci];
      Variant t;
      if(kind == 2) { HashMap<String, Variant>& m = t.toMap(); for(int i = 0; i < n; ++i) m.append(String::fromInt(i), Variant(i)); }
      else { List<Variant>& l = t.toList(); for(int i = 0; i < n; ++i) { if(kind == 0) l.append(Variant(i)); else { Variant e; if(i & 1) e.toMap(); else e.toList(); l.append(e); } } }
      std::string cs = vf::fmt("wide kind=%d members=%d", kind, n);
      vf::crumb("json.deep", sh.token(), cs);
      vf::watchdog_arm(60000);
      String text = Json::toString(t);
      vf::Exact e(std::string((const char*)text, text.length()), true);
      Json::Parser p; Variant w;
      vf::hit("deep_inputs"); vf::hit("wide_documents"); vf::hit("distinct_nontrivial");
      if(!p.parse((const char*)e.p, w))
        vf::violation("C15:json:roundtrip", cs, vf::fmt("serialised text is rejected: line %d column %d: %s", p.getErrorLine(), p.getErrorColumn(), (const char*)p.getErrorString()));
      else if(!(w == t) || !(t == w) || !sameNumbers(t, w)) vf::violation("C15:json:roundtrip", cs, "re-parsed tree differs");
    }
  }
  if(mode == "round")
  {
    int nodes = (int)vf::argll(argc, argv, "--nodes", 3);
    Gen g;
    for(int n = 1; n <= nodes; ++n)
    {
      std::vector<Variant> ts;
      g.trees(n, true, ts);
      for(size_t i = 0; i < ts.size(); ++i)
      {
        if(!sh.take()) continue;
        String text = Json::toString(ts[i]);
        std::string cs = vf::fmt("roundtrip nodes=%d index=%d json='", n, (int)i) + vf::show(std::string((const char*)text, text.length())) + "'";
        vf::crumb("json.round", sh.token(), cs);
        vf::watchdog_arm(20000);
        vf::Exact e(std::string((const char*)text, text.length()), true);
        Json::Parser p; Variant w;
        vf::hit("roundtrip_trees");
        if(n >= 2) vf::hit("distinct_nontrivial");
        if(!p.parse((const char*)e.p, w))
          vf::violation("C15:json:roundtrip", cs, vf::fmt("serialised text is rejected: line %d column %d: %s", p.getErrorLine(), p.getErrorColumn(), (const char*)p.getErrorString()));
        else if(!(w == ts[i]) || !(ts[i] == w) || !sameNumbers(ts[i], w))
        {
          String again = Json::toString(w);
          vf::violation("C15:json:roundtrip", cs, "re-parsed tree differs; it serialises as '" + vf::show(std::string((const char*)again, again.length())) + "'");
        }
        else if(n == 3 && i % 1500 == 7) vf::sample(cs, 3);
      }
    }
  }
  else if(mode == "strip")
  {
    static const char* SYM[] = {"/", "*", "\"", "\\", "\n", "\r", "a", " "};
    vf::Odometer od(8, len);
    long long n = 0;
    while(od.next())
    {
      if(!sh.take()) continue;
      std::string text, cs = "strip text='";
      for(int i = 0; i < od.len; ++i) text += SYM[od.d[i]];
      cs += vf::show(text) + "'";
      vf::crumb("json.strip", sh.token(), cs);
      if((n++ & 0xff) == 0) vf::watchdog_arm(20000);
      std::string got;
      {
        String in(text.data(), text.size());
        String out = Json::stripComments(in);
        got.assign((const char*)out, out.length());
      }
      vf::hit("strip_inputs");
      if(text.find('/') != std::string::npos) vf::hit("distinct_nontrivial");
      std::string want = stripRef(text);
      if(got != want) vf::violation("C15:json:stripComments", cs, "result '" + vf::show(got) + "', reference '" + vf::show(want) + "'");
      else if(od.len == 6 && od.d[0] == 0 && od.d[1] == 1 && od.d[2] == 1) vf::sample(cs + " -> '" + vf::show(got) + "'", 3);
    }
  }
  (void)one;
  vf::watchdog_disarm();
  vf::emit_counters();
  return 0;
}
