// C14 (sequential part): the event loop honours timers, removals, readiness and interrupts.
// Every program is a choice sequence: application turns (a 7 ms application timer), reactions inside every callback,
// and environment deviations (clock overshoot / jump, permuted readiness order).  Callback objects are heap objects
// that are deleted when their timer / client is removed: a callback after remove() is a use after free (ASan).
#define VF_LEDGER
#include <nstd/Socket/Server.hpp>
#include <nstd/Socket/Socket.hpp>
#include "engine/choice.hpp"
#include <string>
#include <fcntl.h>
#include <errno.h>
#include <sys/socket.h>
#include <sys/epoll.h>

struct Cfg { int turns, reactions, envBound; };
static Cfg cfg;
struct World;
static World* W;

static const long long INTERVAL[3] = {10, 10, 25};

struct TimerCb : public Server::Timer::ICallback { int slot; virtual void onActivated(); };
struct ClientCb : public Server::Client::ICallback { int slot; virtual void onRead(); virtual void onWrite(); virtual void onClosed(); };
struct AppCb : public Server::Timer::ICallback { virtual void onActivated(); };

struct MTimer { bool alive; Server::Timer* h; TimerCb* cb; long long t0; long long fired; };
struct MClient { bool alive; Server::Client* h; ClientCb* cb; Socket* peer; int pending; bool suspended, peerClosed, closedDelivered; int reads; };

struct Act { int kind, x; };   // 0 nothing, 1 create timer x, 2 remove timer x, 3 create client x, 4 remove client x, 5 peer write x, 6 peer close x, 7 suspend x, 8 resume x, 9 interrupt

struct World
{
  vf::Chooser* ch;
  Server* server;
  MTimer tm[3]; MClient cl[2];
  AppCb app; Server::Timer* appTimer; long long appT0, appFired;
  long long clockMs;
  int turn, reactions, deviations, polls;
  bool failed; std::string failKey, failMsg, trace; bool tracing;
  bool interruptRequested, running, stopping;
  int pollsSinceInterrupt;
  long long passNow; long long lastDueInPass;
  int runsReturned;

  World() : ch(0), server(0), appTimer(0), appT0(0), appFired(0), clockMs(50000), turn(0), reactions(0), deviations(0), polls(0), failed(false), tracing(false),
    interruptRequested(false), running(false), stopping(false), pollsSinceInterrupt(0), passNow(-1), lastDueInPass(-1), runsReturned(0)
  { memset(tm, 0, sizeof(tm)); memset(cl, 0, sizeof(cl)); }

  void fail(const std::string& k, const std::string& m) { if(!failed) { failed = true; failKey = k; failMsg = m; } }
  int envChoice(int n, const char* what)
  {
    if(n <= 1 || deviations >= cfg.envBound || stopping) return 0;
    int c = ch->choose(n);
    if(c) { ++deviations; vf::hit("env_deviations"); if(tracing) printf("    [env] %s: alternative %d\n", what, c); }
    return c;
  }

  // ------------------------------------------------------------ actions
  std::vector<Act> menu()
  {
    std::vector<Act> m; Act none = {0, 0}; m.push_back(none);
    for(int k = 0; k < 3; ++k) { Act a = {tm[k].alive ? 2 : 1, k}; m.push_back(a); }
    for(int j = 0; j < 2; ++j)
    {
      if(!cl[j].alive) { Act a = {3, j}; m.push_back(a); continue; }
      { Act a = {4, j}; m.push_back(a); }
      if(!cl[j].peerClosed) { Act a = {5, j}; m.push_back(a); }
      if(!cl[j].peerClosed && !cl[j].suspended) { Act a = {6, j}; m.push_back(a); }
      if(!cl[j].suspended && !cl[j].peerClosed) { Act a = {7, j}; m.push_back(a); }
      if(cl[j].suspended) { Act a = {8, j}; m.push_back(a); }
    }
    { Act a = {9, 0}; m.push_back(a); }
    return m;
  }
  static std::string actName(const Act& a)
  {
    static const char* n[] = {"nothing", "create timer", "remove timer", "create client", "remove client", "peer writes to client", "peer closes client", "suspend client", "resume client", "interrupt"};
    return a.kind == 0 || a.kind == 9 ? n[a.kind] : vf::fmt("%s %d", n[a.kind], a.x);
  }
  void perform(const Act& a)
  {
    switch(a.kind)
    {
    case 1: { MTimer& t = tm[a.x]; t.cb = new TimerCb(); t.cb->slot = a.x; t.t0 = clockMs; t.fired = 0; t.h = server->time(INTERVAL[a.x], *t.cb); t.alive = true; vf::hit("timers_created"); break; }
    case 2: { MTimer& t = tm[a.x]; server->remove(*t.h); t.alive = false; delete t.cb; t.cb = 0; t.h = 0; vf::hit("timers_removed"); break; }
    case 3:
    {
      MClient& c = cl[a.x]; memset(&c, 0, sizeof(c));
      c.cb = new ClientCb(); c.cb->slot = a.x; c.peer = new Socket();
      c.h = server->pair(*c.cb, *c.peer);
      if(!c.h) { fprintf(stderr, "pair failed\n"); _exit(3); }
      fcntl((int)c.peer->getFileDescriptor(), F_SETFL, O_NONBLOCK);
      c.alive = true; vf::hit("clients_created");
      break;
    }
    case 4: removeClient(a.x); break;
    case 5: { MClient& c = cl[a.x]; char b = 'x'; if(::write((int)c.peer->getFileDescriptor(), &b, 1) == 1) ++c.pending; break; }
    case 6: { MClient& c = cl[a.x]; c.peer->close(); c.peerClosed = true; break; }
    case 7: cl[a.x].h->suspend(); cl[a.x].suspended = true; break;
    case 8: cl[a.x].h->resume(); cl[a.x].suspended = false; break;
    case 9: server->interrupt(); if(!interruptRequested) pollsSinceInterrupt = 0; interruptRequested = true; vf::hit("interrupts"); break;
    }
  }
  void removeClient(int j)
  {
    MClient& c = cl[j];
    server->remove(*c.h);
    c.alive = false; delete c.cb; c.cb = 0; delete c.peer; c.peer = 0; c.h = 0;
    vf::hit("clients_removed");
  }
  void react(const char* where)
  {
    if(reactions >= cfg.reactions || stopping) return;
    std::vector<Act> m = menu();
    int c = ch->choose((int)m.size());
    if(c == 0) return;
    ++reactions; vf::hit("reactions");
    if(tracing) printf("    [in %s] %s\n", where, actName(m[c]).c_str());
    trace += " {in " + std::string(where) + ": " + actName(m[c]) + "}";
    perform(m[c]);
  }

  // ------------------------------------------------------------ callbacks
  void timerFired(int slot)
  {
    MTimer& t = tm[slot];
    if(!t.alive) { fail("C14:timer-after-remove", vf::fmt("timer %d was activated after remove() had returned", slot)); return; }
    ++t.fired;
    long long due = t.t0 + t.fired * INTERVAL[slot];
    checkDue(due, vf::fmt("timer %d", slot));
    vf::hit("timer_activations");
    react(vf::fmt("timer %d", slot).c_str());
  }
  void checkDue(long long due, const std::string& who)
  {
    if(clockMs < due) fail("C14:timer-early", vf::fmt("%s activated at %lld, due at %lld", who.c_str(), clockMs, due));
    if(passNow != clockMs) { passNow = clockMs; lastDueInPass = -1; }
    if(due < lastDueInPass) fail("C14:timer-order", vf::fmt("%s (due %lld) activated after a timer that was due later (%lld) in the same pass", who.c_str(), due, lastDueInPass));
    lastDueInPass = due;
  }
  void appTurn()
  {
    ++appFired;
    checkDue(appT0 + appFired * 7, "application timer");
    ++turn;
    if(turn > cfg.turns)
    {
      if(!interruptRequested) { stopping = true; server->interrupt(); interruptRequested = true; pollsSinceInterrupt = 0; }
      return;
    }
    std::vector<Act> m = menu();
    int c = ch->choose((int)m.size());
    vf::hit("app_turns");
    if(tracing) printf("  turn %d (t=%lld): %s\n", turn, clockMs, actName(m[c]).c_str());
    trace += (trace.empty() ? "" : "; ") + actName(m[c]);
    perform(m[c]);
  }
  void clientRead(int slot)
  {
    MClient& c = cl[slot];
    if(!c.alive) { fail("C14:client-after-remove", vf::fmt("onRead of client %d after remove() had returned", slot)); return; }
    if(c.suspended) fail("C14:read-while-suspended", vf::fmt("onRead delivered to suspended client %d", slot));
    if(c.pending == 0 && !c.peerClosed) fail("C14:spurious-read", vf::fmt("onRead delivered to client %d although its peer sent nothing", slot));
    vf::hit("onRead");
    ++c.reads;
    react(vf::fmt("onRead %d", slot).c_str());
    if(!cl[slot].alive || cl[slot].cb == 0) return;            // removed by the reaction
    byte buf[8]; usize n;
    while(c.h->read(buf, sizeof(buf), n)) c.pending -= (int)n;
  }
  void clientClosed(int slot)
  {
    MClient& c = cl[slot];
    if(!c.alive) { fail("C14:client-after-remove", vf::fmt("onClosed of client %d after remove() had returned", slot)); return; }
    if(!c.peerClosed) fail("C14:spurious-close", vf::fmt("onClosed delivered to client %d although nothing failed", slot));
    if(c.closedDelivered) fail("C14:double-close", vf::fmt("onClosed delivered twice to client %d", slot));
    c.closedDelivered = true;
    vf::hit("onClosed");
    removeClient(slot);     // the conventional reaction
  }

  // ------------------------------------------------------------ checks at a poll
  void atPoll(bool quiescent)
  {
    for(int k = 0; k < 3; ++k) if(tm[k].alive)
    {
      long long want = (clockMs - tm[k].t0) / INTERVAL[k];
      if(tm[k].fired != want) fail("C14:timer-count", vf::fmt("at time %lld timer %d (interval %lld, created at %lld) has been activated %lld times, expected %lld", clockMs, k, INTERVAL[k], tm[k].t0, tm[k].fired, want));
    }
    if(running && (clockMs - appT0) / 7 != appFired) fail("C14:timer-count", vf::fmt("at time %lld the application timer has been activated %lld times, expected %lld", clockMs, appFired, (clockMs - appT0) / 7));
    if(quiescent)
      for(int j = 0; j < 2; ++j) if(cl[j].alive && !cl[j].suspended)
      {
        if(cl[j].pending > 0) fail("C14:readable-not-dispatched", vf::fmt("client %d has %d unread byte(s) and read interest but the loop went idle without dispatching it", j, cl[j].pending));
        if(cl[j].peerClosed && !cl[j].closedDelivered) fail("C14:close-not-delivered", vf::fmt("the peer of client %d closed but the loop went idle without onClosed", j));
      }
    if(interruptRequested && ++pollsSinceInterrupt > 3) fail("C14:interrupt-ignored", "run() did not return after interrupt()");
  }

  void run(vf::Chooser& c, bool trc)
  {
    ch = &c; tracing = trc; W = this;
    server = new Server();
    appT0 = clockMs; appFired = 0;
    appTimer = server->time(7, app);
    for(int r = 0; r < 2 && !failed; ++r)
    {
      running = true;
      server->run();
      running = false;
      ++runsReturned;
      if(!interruptRequested) { fail("C14:run-returned", "run() returned although interrupt() was not called"); break; }
      interruptRequested = false; pollsSinceInterrupt = 0;
      if(stopping) break;
      vf::hit("second_runs");
    }
    // teardown
    for(int k = 0; k < 3; ++k) if(tm[k].alive) { Act a = {2, k}; perform(a); }
    for(int j = 0; j < 2; ++j) if(cl[j].alive) removeClient(j);
    delete server; server = 0;
  }
};

void TimerCb::onActivated() { int s = slot; W->timerFired(s); }
void ClientCb::onRead() { int s = slot; W->clientRead(s); }
void ClientCb::onWrite() {}
void ClientCb::onClosed() { int s = slot; W->clientClosed(s); }
void AppCb::onActivated() { W->appTurn(); }

extern "C" ssize_t vf_send(int fd, const void* buf, size_t n, int flags) { return ::send(fd, buf, n, flags); }
extern "C" ssize_t vf_recv(int fd, void* buf, size_t n, int flags) { return ::recv(fd, buf, n, flags); }
extern "C" int vf_clock_gettime(clockid_t, struct timespec* ts)
{
  long long ms = W ? W->clockMs : 50000;
  ts->tv_sec = ms / 1000; ts->tv_nsec = (ms % 1000) * 1000000L;
  return 0;
}
extern "C" int vf_epoll_wait(int epfd, struct epoll_event* events, int maxevents, int timeout)
{
  World* w = W;
  if(!w) return ::epoll_wait(epfd, events, maxevents, timeout);
  if(++w->polls > 300) { w->fail("C14:no-progress", "the event loop polled 300 times without finishing"); w->stopping = true; if(!w->interruptRequested) { w->server->interrupt(); w->interruptRequested = true; } }
  int n = ::epoll_wait(epfd, events, maxevents, 0);
  w->atPoll(n == 0);
  if(n == 0 && timeout != 0)
  { // time passes: exactly the requested timeout (default), one millisecond more, or a jump over several intervals
    int c = w->envChoice(3, "clock");
    long long t = timeout > 0 ? timeout : 1;
    w->clockMs += c == 0 ? t : c == 1 ? t + 1 : t + 23;
    return 0;
  }
  if(n >= 2 && w->envChoice(2, "readiness order") == 1)
    for(int i = 0; i < n / 2; ++i) { struct epoll_event tmp = events[i]; events[i] = events[n - 1 - i]; events[n - 1 - i] = tmp; }
  return n;
}

struct Runner
{
  std::map<std::string, int> keys;
  void operator()(vf::Chooser& ch, bool trace)
  {
    World* w = new World();
    w->run(ch, trace);
    if(w->reactions) vf::hit("programs_with_reaction");
    if(w->failed)
    {
      vf::hit("violating_executions");
      if(++keys[w->failKey] <= 3) vf::violation(w->failKey, "choices=" + ch.path() + " program: " + w->trace, w->failMsg);
      if(trace) printf("REPRODUCED %s: %s\n", w->failKey.c_str(), w->failMsg.c_str());
    }
    else if(w->reactions >= 1 && w->deviations >= 1) vf::sample("choices=" + ch.path() + " program: " + w->trace, 4);
    W = 0;
    delete w;
  }
};

int main(int argc, char** argv)
{
  vf::std_init(argc, argv);
  cfg.turns = (int)vf::argll(argc, argv, "--turns", 3);
  cfg.reactions = (int)vf::argll(argc, argv, "--reactions", 1);
  cfg.envBound = (int)vf::argll(argc, argv, "--eb", 1);
  Runner r;
  vf::dfs(argc, argv, r, "server-loop");
  return 0;
}
