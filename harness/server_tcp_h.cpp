// C14 (listeners and establishers): the event loop over real TCP on the loopback interface of a private network
// namespace (every explorer process has its own, so the fixed ports never collide with anything).
// Programs are choice sequences as in server_loop_h.cpp: application turns at a 7 ms timer, reactions inside every
// callback, accept / refuse decisions of onAccepted / onConnected.  Callback objects are heap objects freed on removal.
#define VF_LEDGER
#define _GNU_SOURCE 1
#include <nstd/Socket/Server.hpp>
#include <nstd/Socket/Socket.hpp>
#include "engine/choice.hpp"
#include <string>
#include <sched.h>
#include <fcntl.h>
#include <errno.h>
#include <sys/socket.h>
#include <sys/epoll.h>
#include <sys/ioctl.h>
#include <net/if.h>
#include <netinet/in.h>
static std::string g_prop = "C14";   // property whose check runs the harness (--prop)

struct Cfg { int turns, reactions; };
static Cfg cfg;
struct World;
static World* W;
static const unsigned short PORT_LISTEN = 7001, PORT_CLOSED = 7002;

static bool newNamespace()
{
  if(unshare(CLONE_NEWNET) != 0) return false;
  int s = ::socket(AF_INET, SOCK_DGRAM, 0);
  struct ifreq r; memset(&r, 0, sizeof(r)); strcpy(r.ifr_name, "lo");
  bool ok = ioctl(s, SIOCGIFFLAGS, &r) == 0;
  r.ifr_flags |= IFF_UP | IFF_RUNNING;
  ok = ok && ioctl(s, SIOCSIFFLAGS, &r) == 0;
  ::close(s);
  return ok;
}

struct ListenerCb : public Server::Listener::ICallback { virtual Server::Client::ICallback* onAccepted(Server::Client& client, uint32 ip, uint16 port); };
struct EstCb : public Server::Establisher::ICallback { int slot; virtual Server::Client::ICallback* onConnected(Server::Client& client); virtual void onAbolished(); };
struct ClientCb : public Server::Client::ICallback { int slot; virtual void onRead(); virtual void onWrite(); virtual void onClosed(); };
struct AppCb : public Server::Timer::ICallback { virtual void onActivated(); };

struct MListener { bool alive; Server::Listener* h; ListenerCb* cb; int pendingConn; };
struct MEst { bool alive, resolved, listenerAliveAtCreation; Server::Establisher* h; EstCb* cb; };
struct MRaw { int fd; unsigned short localPort; bool accepted; int client; int unread; };     // connections made by the harness itself
struct MClient { bool alive, suspended; Server::Client* h; ClientCb* cb; int raw; int fd; bool backlog; int onWrites; };
struct Act { int kind, x; };   // 0 nothing, 1 listen, 2 remove listener, 3 raw connect, 4 establish x, 5 remove establisher x, 6 raw x writes, 7 remove client x, 8 interrupt, 9 resume client x

struct World
{
  vf::Chooser* ch; Server* server;
  MListener li; MEst es[2]; MRaw raw[2]; int nraw; MClient cl[6]; int ncl;
  AppCb app; long long clockMs; int turn, reactions, polls;
  bool failed, tracing, interruptRequested, stopping; std::string failKey, failMsg, trace;
  int pollsSinceInterrupt;

  World() : ch(0), server(0), nraw(0), ncl(0), clockMs(50000), turn(0), reactions(0), polls(0), failed(false), tracing(false), interruptRequested(false), stopping(false), pollsSinceInterrupt(0), partialFd(-1)
  { memset(&li, 0, sizeof(li)); memset(es, 0, sizeof(es)); memset(raw, 0, sizeof(raw)); memset(cl, 0, sizeof(cl)); }
  void fail(const std::string& k, const std::string& m) { if(!failed) { failed = true; failKey = g_prop + ":" + k; failMsg = m; } }
  void note(const std::string& s, bool inner) { if(inner) trace += " {" + s + "}"; else trace += (trace.empty() ? "" : "; ") + s; if(tracing) printf("  %s%s\n", inner ? "  " : "", s.c_str()); }

  std::vector<Act> menu()
  {
    std::vector<Act> m; Act none = {0, 0}; m.push_back(none);
    { Act a = {li.alive ? 2 : 1, 0}; m.push_back(a); }
    if(nraw < 2) { Act a = {3, 0}; m.push_back(a); }
    for(int k = 0; k < 2; ++k) { Act a = {es[k].alive ? 5 : 4, k}; m.push_back(a); }
    for(int k = 0; k < nraw; ++k) if(raw[k].fd >= 0 && raw[k].accepted && raw[k].client >= 0 && cl[raw[k].client].alive) { Act a = {6, k}; m.push_back(a); }
    for(int k = 0; k < ncl; ++k) if(cl[k].alive) { Act a = {7, k}; m.push_back(a); break; }
    for(int k = 0; k < ncl; ++k) if(cl[k].alive && cl[k].suspended) { Act a = {9, k}; m.push_back(a); break; }
    { Act a = {8, 0}; m.push_back(a); }
    return m;
  }
  static std::string actName(const Act& a)
  {
    switch(a.kind)
    {
    case 1: return "listen"; case 2: return "remove listener"; case 3: return "a peer connects to the listening port";
    case 4: return a.x == 0 ? "establish 0 (to the listening port)" : "establish 1 (to a closed port)"; case 5: return vf::fmt("remove establisher %d", a.x);
    case 6: return vf::fmt("peer %d writes", a.x); case 7: return vf::fmt("remove client %d", a.x); case 8: return "interrupt"; case 9: return vf::fmt("resume client %d", a.x);
    }
    return "nothing";
  }
  void perform(const Act& a)
  {
    switch(a.kind)
    {
    case 1:
      li.cb = new ListenerCb(); li.pendingConn = 0;
      li.h = server->listen(Socket::loopbackAddress, PORT_LISTEN, *li.cb);
      if(!li.h) { delete li.cb; li.cb = 0; fail("listen-failed", "listen() on a free loopback port failed: " + std::string((const char*)Socket::getErrorString())); break; }
      li.alive = true; vf::hit("listeners_created"); break;
    case 2: server->remove(*li.h); li.alive = false; delete li.cb; li.cb = 0; li.h = 0; vf::hit("listeners_removed"); break;
    case 3:
    {
      MRaw& r = raw[nraw]; memset(&r, 0, sizeof(r)); r.client = -1;
      r.fd = ::socket(AF_INET, SOCK_STREAM, 0);
      struct linger lg = {1, 0}; setsockopt(r.fd, SOL_SOCKET, SO_LINGER, &lg, sizeof(lg));
      struct sockaddr_in sa; memset(&sa, 0, sizeof(sa)); sa.sin_family = AF_INET; sa.sin_port = htons(PORT_LISTEN); sa.sin_addr.s_addr = htonl(INADDR_LOOPBACK);
      if(::connect(r.fd, (struct sockaddr*)&sa, sizeof(sa)) != 0) { ::close(r.fd); r.fd = -1; if(li.alive) fail("refused", "a connection to the listening port was refused"); }
      else
      {
        socklen_t sl = sizeof(sa); getsockname(r.fd, (struct sockaddr*)&sa, &sl); r.localPort = ntohs(sa.sin_port);
        if(li.alive) ++li.pendingConn; vf::hit("peer_connections");
      }
      ++nraw; break;
    }
    case 4:
    {
      MEst& e = es[a.x]; memset(&e, 0, sizeof(e));
      e.cb = new EstCb(); e.cb->slot = a.x; e.listenerAliveAtCreation = a.x == 0 && li.alive;
      e.h = server->connect(Socket::loopbackAddress, a.x == 0 ? PORT_LISTEN : PORT_CLOSED, *e.cb);
      if(!e.h)
      { // refused synchronously: legitimate only when nothing listens there
        delete e.cb; e.cb = 0;
        if(e.listenerAliveAtCreation) fail("connect-failed", "connect() to the listening port failed");
        break;
      }
      e.alive = true; if(e.listenerAliveAtCreation) ++li.pendingConn; vf::hit("establishers_created"); break;
    }
    case 5: { MEst& e = es[a.x]; server->remove(*e.h); e.alive = false; delete e.cb; e.cb = 0; e.h = 0; vf::hit("establishers_removed"); break; }
    case 6: { char b = 'x'; if(::send(raw[a.x].fd, &b, 1, MSG_NOSIGNAL) == 1) ++raw[a.x].unread; break; }
    case 7: removeClient(a.x); break;
    case 8: server->interrupt(); if(!interruptRequested) pollsSinceInterrupt = 0; interruptRequested = true; vf::hit("interrupts"); break;
    case 9: cl[a.x].h->resume(); cl[a.x].suspended = false; break;
    }
  }
  void removeClient(int k)
  {
    MClient& c = cl[k];
    server->remove(*c.h); c.alive = false; delete c.cb; c.cb = 0; c.h = 0; vf::hit("clients_removed");
  }
  void react(const std::string& where)
  {
    if(reactions >= cfg.reactions || stopping) return;
    std::vector<Act> m = menu();
    int c = ch->choose((int)m.size());
    if(c == 0) return;
    ++reactions; vf::hit("reactions");
    note("in " + where + ": " + actName(m[c]), true);
    perform(m[c]);
  }
  // accept (default) or refuse the new client
  Server::Client::ICallback* adopt(Server::Client& client, int rawIdx, const std::string& where)
  {
    if(ncl >= 6) return 0;
    int how = stopping ? 0 : ch->choose(4);    // accept (default), refuse, accept and suspend at once, accept and write with a send that is only partly taken (all still inside the callback)
    if(how == 1) { note(where + ": the application refuses the client", true); vf::hit("clients_refused"); return 0; }
    MClient& c = cl[ncl]; c.cb = new ClientCb(); c.cb->slot = ncl; c.h = &client; c.alive = true; c.raw = rawIdx; c.suspended = false;
    c.fd = (int)client.getSocket().getFileDescriptor(); c.backlog = false; c.onWrites = 0;
    if(how == 2) { client.suspend(); c.suspended = true; note(where + ": the application suspends the new client", true); vf::hit("clients_suspended_in_callback"); }
    if(how == 3)
    { // the operating system takes one of four bytes: a backlog exists when the callback returns, write interest must survive
      partialFd = c.fd;
      usize postponed = 0;
      bool ok = client.write((const byte*)"wxyz", 4, &postponed);
      partialFd = -1;
      if(!ok || postponed != 3) fail("write-in-callback", vf::fmt("write inside the creating callback returned %d with %d postponed bytes, expected true / 3", (int)ok, (int)postponed));
      c.backlog = true;
      note(where + ": the application writes to the new client, the send is only partly taken", true); vf::hit("clients_written_in_callback");
    }
    if(rawIdx >= 0) raw[rawIdx].client = ncl;
    ++ncl; vf::hit("clients_adopted");
    return c.cb;
  }

  Server::Client::ICallback* accepted(Server::Client& client, uint32 ip, uint16 port)
  {
    vf::hit("onAccepted");
    if(!li.alive) { fail("listener-after-remove", "onAccepted after remove() of the listener had returned"); return 0; }
    if(ip != Socket::loopbackAddress) fail("accept-address", vf::fmt("onAccepted reported address %08x for a loopback connection", (unsigned)ip));
    if(li.pendingConn <= 0) fail("spurious-accept", "onAccepted although every connection made to this listener has been accepted already");
    --li.pendingConn;
    int rawIdx = -1;
    for(int k = 0; k < nraw; ++k) if(raw[k].fd >= 0 && raw[k].localPort == port) { rawIdx = k; raw[k].accepted = true; }
    Server::Client::ICallback* cb = adopt(client, rawIdx, "onAccepted");
    // the reaction may remove the listener or the client just adopted; the library must cope with both
    int mine = cb ? ncl - 1 : -1;
    react("onAccepted");
    if(mine >= 0 && !cl[mine].alive) return 0;   // the reaction removed the client: nothing to hand back
    return cb;
  }
  Server::Client::ICallback* connected(int slot, Server::Client& client)
  {
    vf::hit("onConnected");
    MEst& e = es[slot];
    if(!e.alive) { fail("establisher-after-remove", vf::fmt("onConnected of establisher %d after remove() had returned", slot)); return 0; }
    if(e.resolved) fail("establisher-twice", vf::fmt("establisher %d got a second notification", slot));
    if(!e.listenerAliveAtCreation) fail("connected-to-closed-port", vf::fmt("establisher %d reported a connection to a port nothing listened on", slot));
    e.resolved = true;
    Server::Client::ICallback* cb = adopt(client, -1, "onConnected");
    int mine = cb ? ncl - 1 : -1;
    react(vf::fmt("onConnected %d", slot));
    if(mine >= 0 && !cl[mine].alive) return 0;
    return cb;
  }
  void abolished(int slot)
  {
    vf::hit("onAbolished");
    MEst& e = es[slot];
    if(!e.alive) { fail("establisher-after-remove", vf::fmt("onAbolished of establisher %d after remove() had returned", slot)); return; }
    if(e.resolved) fail("establisher-twice", vf::fmt("establisher %d got a second notification", slot));
    if(e.listenerAliveAtCreation && li.alive) fail("abolished", vf::fmt("establisher %d was abolished although the port is listening", slot));
    e.resolved = true;
    react(vf::fmt("onAbolished %d", slot));
  }
  void clientRead(int slot)
  {
    MClient& c = cl[slot];
    if(!c.alive) { fail("client-after-remove", vf::fmt("onRead of client %d after remove() had returned", slot)); return; }
    if(c.suspended) fail("read-while-suspended", vf::fmt("onRead delivered to client %d, which was suspended inside the callback that created it", slot));
    vf::hit("onRead");
    react(vf::fmt("onRead %d", slot));
    if(!cl[slot].alive) return;
    byte buf[8]; usize n;
    while(c.h->read(buf, sizeof(buf), n)) if(c.raw >= 0) raw[c.raw].unread -= (int)n;
  }
  void clientClosed(int slot)
  {
    MClient& c = cl[slot];
    if(!c.alive) { fail("client-after-remove", vf::fmt("onClosed of client %d after remove() had returned", slot)); return; }
    vf::hit("onClosed");
    removeClient(slot);
  }
  void appTurn()
  {
    ++turn;
    if(turn > cfg.turns)
    {
      if(!interruptRequested) { stopping = true; server->interrupt(); interruptRequested = true; pollsSinceInterrupt = 0; }
      return;
    }
    std::vector<Act> m = menu();
    int c = ch->choose((int)m.size());
    vf::hit("app_turns");
    note(vf::fmt("turn %d: ", turn) + actName(m[c]), false);
    perform(m[c]);
  }
  // what must have happened before the loop goes idle
  int partialFd;
  void clientWrote(int slot)
  {
    MClient& c = cl[slot];
    if(!c.alive) { fail("client-after-remove", vf::fmt("onWrite of client %d after remove() had returned", slot)); return; }
    if(!c.backlog) fail("spurious-onWrite", vf::fmt("onWrite delivered to client %d although it has no backlog", slot));
    if(c.h->getSendBufferSize() != 0) fail("onWrite-early", vf::fmt("onWrite delivered to client %d while %d bytes are still buffered", slot, (int)c.h->getSendBufferSize()));
    c.backlog = false; ++c.onWrites; vf::hit("onWrite");
  }
  bool expectsEvents() const
  {
    for(int k = 0; k < ncl; ++k) if(cl[k].alive && cl[k].backlog) return true;
    if(li.alive && li.pendingConn > 0) return true;
    for(int k = 0; k < 2; ++k) if(es[k].alive && !es[k].resolved) return true;
    for(int k = 0; k < nraw; ++k) if(raw[k].unread > 0 && raw[k].client >= 0 && cl[raw[k].client].alive && !cl[raw[k].client].suspended) return true;
    return false;
  }
  void atIdle()
  {
    for(int k = 0; k < ncl; ++k) if(cl[k].alive && cl[k].backlog)
      fail("backlog-not-dispatched", vf::fmt("client %d has a send backlog and a writable socket but the loop went idle without draining it (no onWrite)", k));
    if(li.alive && li.pendingConn > 0) fail("acceptable-not-dispatched", vf::fmt("%d connection(s) wait at the listener but the loop went idle without onAccepted", li.pendingConn));
    for(int k = 0; k < 2; ++k) if(es[k].alive && !es[k].resolved) fail("connect-not-dispatched", vf::fmt("establisher %d got neither onConnected nor onAbolished before the loop went idle", k));
    for(int k = 0; k < nraw; ++k) if(raw[k].unread > 0 && raw[k].client >= 0 && cl[raw[k].client].alive && !cl[raw[k].client].suspended)
      fail("readable-not-dispatched", vf::fmt("accepted client %d has unread data but the loop went idle without onRead", raw[k].client));
  }
  void run(vf::Chooser& c, bool trc)
  {
    ch = &c; tracing = trc; W = this;
    server = new Server();
    server->time(7, app);
    server->run();
    if(!interruptRequested) fail("run-returned", "run() returned although interrupt() was not called");
    if(li.alive) { Act a = {2, 0}; perform(a); }
    for(int k = 0; k < 2; ++k) if(es[k].alive) { Act a = {5, k}; perform(a); }
    for(int k = 0; k < ncl; ++k) if(cl[k].alive) removeClient(k);
    delete server; server = 0;
    for(int k = 0; k < nraw; ++k) if(raw[k].fd >= 0) ::close(raw[k].fd);
  }
};

Server::Client::ICallback* ListenerCb::onAccepted(Server::Client& client, uint32 ip, uint16 port) { return W->accepted(client, ip, port); }
Server::Client::ICallback* EstCb::onConnected(Server::Client& client) { int s = slot; return W->connected(s, client); }
void EstCb::onAbolished() { int s = slot; W->abolished(s); }
void ClientCb::onRead() { int s = slot; W->clientRead(s); }
void ClientCb::onWrite() { int s = slot; W->clientWrote(s); }
void ClientCb::onClosed() { int s = slot; W->clientClosed(s); }
void AppCb::onActivated() { W->appTurn(); }

extern "C" ssize_t vf_send(int fd, const void* buf, size_t n, int flags)
{
  if(W && fd == W->partialFd && n > 1) n = 1;       // the environment takes one byte of this send
  return ::send(fd, buf, n, flags);
}
extern "C" ssize_t vf_recv(int fd, void* buf, size_t n, int flags) { return ::recv(fd, buf, n, flags); }
extern "C" int vf_clock_gettime(clockid_t, struct timespec* ts)
{
  long long ms = W ? W->clockMs : 50000;
  ts->tv_sec = ms / 1000; ts->tv_nsec = (ms % 1000) * 1000000L;
  return 0;
}
extern "C" int vf_epoll_wait(int epfd, struct epoll_event* events, int maxevents, int timeout)
{
  World* w = W;
  if(!w) return ::epoll_wait(epfd, events, maxevents, timeout);
  if(++w->polls > 300) { w->fail("no-progress", "the event loop polled 300 times without finishing"); w->stopping = true; if(!w->interruptRequested) { w->server->interrupt(); w->interruptRequested = true; } }
  int n = ::epoll_wait(epfd, events, maxevents, 0);
  // the loopback handshake is completed inside the connect call; should the kernel ever need longer, give it real time before
  // concluding that a registered socket is not reported
  if(n == 0 && w->expectsEvents())
  {
    vf::hit("settle_waits");
    vf::watchdog_arm(60000);
    for(int i = 0; i < 20 && n == 0; ++i) n = ::epoll_wait(epfd, events, maxevents, 250);   // up to 5 s of real time on a loaded machine
  }
  if(w->interruptRequested && ++w->pollsSinceInterrupt > 3) w->fail("interrupt-ignored", "run() did not return after interrupt()");
  if(n == 0 && timeout != 0) { w->atIdle(); w->clockMs += timeout > 0 ? timeout : 1; return 0; }
  return n;
}

struct Runner
{
  std::map<std::string, int> keys; long long sinceNs;
  Runner() : sinceNs(0) {}
  void operator()(vf::Chooser& ch, bool trace)
  {
    if(++sinceNs >= 400) { if(!newNamespace()) { fprintf(stderr, "cannot create a network namespace\n"); _exit(3); } sinceNs = 0; }   // sheds TIME_WAIT state
    World* w = new World();
    try { w->run(ch, trace); }
    catch(vf::SkipRun&) { W = 0; newNamespace(); sinceNs = 0; throw; }   // sockets of the abandoned run stay behind in the old namespace
    if(w->reactions) vf::hit("programs_with_reaction");
    if(w->failed)
    {
      vf::hit("violating_executions");
      if(++keys[w->failKey] <= 3) vf::violation(w->failKey, "choices=" + ch.path() + " program: " + w->trace, w->failMsg);
      if(trace) printf("REPRODUCED %s: %s\n", w->failKey.c_str(), w->failMsg.c_str());
    }
    else if(w->reactions >= 1 && w->ncl >= 2) vf::sample("choices=" + ch.path() + " program: " + w->trace, 4);
    W = 0;
    delete w;
  }
};

int main(int argc, char** argv)
{
  vf::std_init(argc, argv);
  g_prop = vf::arg(argc, argv, "--prop", "C14");
  cfg.turns = (int)vf::argll(argc, argv, "--turns", 3);
  cfg.reactions = (int)vf::argll(argc, argv, "--reactions", 1);
  if(!newNamespace())
  { // no privilege for a private loopback interface: the check reports that this part was not explored instead of guessing
    vf::hit("namespace_unavailable");
    vf::emit_counters();
    return 0;
  }
  Runner r;
  vf::dfs(argc, argv, r, "server-tcp");
  return 0;
}
