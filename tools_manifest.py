#!/usr/bin/env python3
"""Regenerates MANIFEST.json from the table below (single source of truth)."""
import json, os
HERE = os.path.dirname(os.path.abspath(__file__))
TITLES = {}
for l in open(os.path.join(HERE, "properties.jsonl")):
    p = json.loads(l); TITLES[p["id"]] = p["title"]

# id -> (category, technique, level text, level note, design ref)
BFS = "explicit-state BFS over operation histories of the real object (replayed on fresh objects, canonical-state de-duplication) with a reference model as oracle"
CHECKS = {
 "C01": ("model_checking", BFS + "; fix-point over a finite key universe",
         "every reachable AVL shape over 9 (quick) / 12 (thorough) keys and every MultiMap over 2-4 keys with up to 7-12 entries is reached and from each "
         "every operation of the alphabet is executed and compared with a sorted reference, including the stated comparison bound of find; sparse (Fibonacci) trees of height 6/7 with every removal/re-insertion sequence to depth 4-6; the canonical state includes the sentinel links, begin, size and the spare-slot pool",
         "bounded key universe; internals read with -fno-access-control only for the canonical state", "DESIGN.md §4 C01"),
 "C02": ("model_checking", BFS + "; fix-point for every (capacity x hash mode) configuration",
         "all ordered key sets over 3-5 keys in two variables, all bucket-chain orders, capacities 1/2/3/500 and three hash modes, every operation (swap with either receiver) compared with an insertion-ordered reference; String keys that collide under the library's own hash at capacities 1/2/7; pool shape and sentinel links in the canonical state",
         "bounded key universe", "DESIGN.md §4 C02"),
 "C03": ("model_checking", BFS + "; plus exhaustive enumeration of List::sort inputs",
         "all List value sequences up to length 3-7 in two variables, all Array (size,capacity,allocated) states up to size 12-28, all PoolList sizes up to 5-13 (with pool shape); every sort input up to length 7-9 over 4 values and all permutations of 8-9 values",
         "bounded lengths/value universes", "DESIGN.md §4 C03"),
 "C04": ("model_checking", BFS + "; element type with instance registry + allocation ledger, self-referential alphabet",
         "every history of the C01-C03 spaces extended by self-assignment and own-element arguments is executed with lifetime-tracked elements; leaks, double destruction, touch-after-destroy and shallow copies are decided on every transition",
         "bounded universes as C01-C03", "DESIGN.md §4 C04"),
 "C05": ("model_checking", BFS + "; address book of every live element checked after every transition",
         "in every reachable state of the C01-C03 spaces every live element is re-obtained by iteration and find and must be at the address recorded at its insertion",
         "bounded universes as C01-C03", "DESIGN.md §4 C05"),
 "C06": ("model_checking", BFS + "; depth-bounded from six initial representation/sharing states",
         "every history up to depth 4-6 over three String variables, started from the empty state and from literal / attached / shared / slack states, is executed and every variable compared with a std::string-like reference after each step; plus every operand length 0..300 (1500) for printf / fromPrintf / append / prepend / resize / reserve on five initial representations (the length thresholds of the formatted-output path)",
         "contents over a small byte alphabet, length <= 3-6; infinite space, depth bounded", "DESIGN.md §4 C06"),
 "C07": ("model_checking", BFS + "; depth-bounded from four initial sharing states, value-tree reference",
         "every history up to depth 3-7 over three Variant variables incl. nested containers; after each step every accessor/coercion, the nested structure, copy equality, reference counts and the ledger are compared with a value-tree model",
         "NaN excluded; a Variant is not inserted into its own payload; infinite space, depth bounded", "DESIGN.md §4 C07"),
 "C08": ("model_checking", BFS + "; fix-point over (owned, head-room, size, capacity, attached) of two Buffers",
         "every reachable combination of ownership, head-room, size and capacity (sizes up to 6/16) with every operation incl. attach mixed with owning operations; terminator and bounds decided on every transition (ASan)",
         "byte values are data only (canonical-state argument); self arguments excluded", "DESIGN.md §4 C08"),
 "C09": ("model_checking", "explorer A (handle-history BFS with reference-count invariants) + explorer B (preemption-bounded schedule DFS of threads owning distinct handles to one payload, guard-page allocator)",
         "sequential: every handle history (copy/assign/swap/null/destroy, handles stored inside the managed objects: h = h->next and the like) over RefCount::Ptr and Xml::Variant to a fix-point / depth bound and the String/Variant histories with count == sharers; concurrent: every schedule with <= 2 (3) preemptions at volatile/atomic operations and every schedule with <= 1 preemption with all plain accesses as scheduling points, for 9 three-thread scenarios",
         "sequential consistency (no weak-memory effects); bounded numbers of handles and threads", "DESIGN.md §4 C09"),
 "C10": ("model_checking", "stateless delay/preemption-bounded DFS over thread schedules of the real Future + worker pool under a serialising scheduler; Future.cpp is included into the scenario unit to install small pools and to shut the pool down",
         "ten scenarios (single client, lazy creation race, one-slot queue back-pressure, three futures before any join, abort, restart, clock jumps driving the shrink branch, client+main on a one-slot queue, growth to three workers followed by idle periods that retire them, restart after an aborted call): every schedule with <= 2 (3 thorough) deviations from the default scheduler (1 (2) for the 650-point lazy-creation scenario), and with every plain access as a scheduling point with <= 1 (2); exactly-once, join-after-completion, result, state, deadlock/livelock, call-record lifetime (guard allocator) and operations on destroyed primitives are decided on each",
         "sequential consistency; processor count 1 (pool of at most 3 workers); delay-bounded (a non-default successor at a blocking point costs budget too)", "DESIGN.md §4 C10"),
 "C11": ("model_checking", "stateless preemption- and deviation-bounded DFS over thread schedules of the real primitives under a serialising scheduler (TSan-ABI callbacks + renamed pthread/sem/clock calls as scheduling points)",
         "every schedule with <= 2 (3) preemptions and <= 1 (2) environment deviations (spurious wake-up, early timeout) of 2-4 thread scenarios per primitive, plus the deadline arithmetic of every timed wait for 18 start/timeout combinations; deadlock/livelock verdicts from the scheduler",
         "the scheduler's model of POSIX primitives is trusted; sequential consistency; plain accesses are not scheduling points", "DESIGN.md §3.3, §4 C11"),
 "C12": ("model_checking", "stateless exhaustive DFS over choice sequences (top-level steps x re-entrant reactions inside slots) on the real implementation with a lockstep reference model",
         "every program of up to 4 (5-6) top-level steps with up to 3 (4) re-entrant reactions (connect/disconnect/emit/destroy inside slots, nesting to 3-4) over 1-2 emitters, 1-2 signals, 2-3 listeners, 1-2 slots; every invocation, every returning emission and both sides' bookkeeping are decided against the model, destroyed objects by ASan",
         "bounded numbers of objects, steps and reactions", "DESIGN.md §4 C12"),
 "C13": ("model_checking", "stateless exhaustive DFS over choice sequences of environment answers (send outcomes, peer reads, time) and application actions on the real Server/Socket code with intercepted send/epoll_wait/clock",
         "every sequence of 4 (5-6) application turns over {write 1/3/8, suspend, resume, peer write, nothing} combined with every placement of <= 3 non-default OS answers (would-block, partial 1 / n/2 / n-1, peer reads nothing / one byte); stream integrity, postponed/backlog size, onWrite accounting and suspension are decided on each; a descriptor that answered would-block stays unwritable until time advances so that backlogs persist across application turns; two clients (3 turns) whose callbacks suspend / resume / remove each other, with would-block, partial and connection-reset answers (onClosed exactly once after a failed send); clients created by accept / connect over loopback TCP with a write or suspend inside the creating callback",
         "real kernel socket pair + epoll readiness; the only injected hard error is a connection reset on send", "DESIGN.md §4 C13"),
 "C14": ("model_checking", "explorer C (stateless DFS over programs of application turns, re-entrant reactions inside callbacks and environment deviations on the real Server with intercepted epoll_wait/clock) + explorer B (schedule DFS of run() against interrupt() from a second thread with the event descriptor and epoll modelled by the scheduler)",
         "sequential: every program of up to 3-5 application turns and up to 2 reactions inside timer/onRead callbacks over timers with equal and different due times, two paired clients, peer writes/closes, suspend/resume, interrupt, with clock overshoot/jump and reversed readiness order; two clients with send backlogs reacting on each other; listeners and establishers over real loopback TCP in a private network namespace (3-5 turns, 1-3 reactions inside onAccepted/onConnected/onAbolished/onRead); threaded: four run/interrupt scenarios and six host-name-resolver scenarios (resolver on a pool thread against remove, destruction, interrupt and a reconnect) under every schedule with <= 2 (3) preemptions",
         "real kernel socket pairs, loopback TCP and epoll in the sequential parts (the TCP part needs the privilege to create a network namespace, reported in the evidence); getaddrinfo is replaced by a model that resolves no name", "DESIGN.md §4 C14"),
 "C15": ("exploration", "exhaustive enumeration of token strings / value trees / symbol strings on the real parser, serialiser and comment stripper under ASan",
         "every token string up to 5 (6) tokens over a 33-token alphabet and every byte prefix of the accepted ones, every value tree up to 4 (5) nodes, deep and wide documents, every pair of documents of up to 2 (3) x 3 tokens through one Parser object and result variable, every stripComments input up to 8 (10) symbols; totality, bounds, error position, round trip and comment removal are decided on each",
         "alphabets and sizes are bounded; integers must come back as integers of identical value (Variant == alone converts between number types)", "DESIGN.md §4 C15"),
 "C16": ("exploration", "exhaustive enumeration of token strings / element trees / comment placements on the real parser and serialiser under ASan, plus handle-history BFS for element value copies",
         "every token string up to 5 (6) tokens over a 27-token alphabet through both entry points, every element tree of the stated shape space serialised and re-parsed, values with 0..300 (1200) characters that need escaping (every reallocation point of the escaper), a comment at every token boundary of every tree, processing instructions with line breaks, nesting to 1000 (also with siblings on every level), wide trees, every pair of documents of up to 2 (3) x 3 tokens through one Parser object and result element; time and memory watchdogs decide termination",
         "alphabets and sizes are bounded; comments inside tags are white-space separated", "DESIGN.md §4 C16"),
 "C17": ("exploration", "exhaustive enumeration of message length x chunking shapes on the real code vs hashlib/hmac",
         "every length 0..300 (1500 thorough) x 4 content generators, every 2-way and (bounded) 3-way chunking, hasher reuse, "
         "HMAC for every key length 0..200 (300): the padding/carry/key-normalisation logic depends on lengths only, so the shape space is exhausted",
         "trusts Python hashlib/hmac; content limited to four generators", "DESIGN.md §4 C17"),
 "C18": ("exploration", "exhaustive enumeration of code points / short byte strings / boundary integers / encodings on the real codecs under ASan + bounds sanitizer",
         "all 1,114,112 code points, all byte strings up to 3 bytes plus class-alphabet strings up to 5 (6) bytes in exactly sized blocks, all 16-bit and power-of-two boundary integers, all base64 encodings of short inputs, arbitrary 4/8-symbol inputs and every byte value at every position of two well-formed groups",
         "longer inputs covered by class alphabets only", "DESIGN.md §4 C18"),
 "C19": ("exploration", "exhaustive enumeration of path strings, relative-path pairs, file operation histories, mkdir arguments and directory trees against reference models on a real scratch file system",
         "every path of <= 4 (5) components over 8 names and both separators, all answerable getRelativePath pairs, every file operation history of <= 4 (5) steps over 24 operations, every Directory::create argument of <= 3 components, every tree of <= 4 (5) nodes with symlinks for recursive unlink",
         "the kernel's file system semantics are trusted; runs in a private scratch directory", "DESIGN.md §4 C19"),
 "C20": ("exploration", "exhaustive enumeration of argument vectors against glibc getopt_long, and of command lines / launch configurations against an echoing helper child",
         "every argument vector of <= 4 (6) strings over 23 option/value forms in exactly sized heap blocks, every command line of <= 3 words over 7 quoting forms through the real Process::open, the launch matrix (overloads x environments x all seven stream combinations x payload sizes around the pipe capacity), overlapping processes, two children on one Process object, late writers and all 256 exit codes",
         "glibc getopt_long (exact long names) is the reference; real vfork/exec in the sandbox", "DESIGN.md §4 C20"),
}
NOT_YET = "check not built yet in this snapshot (planned, see DESIGN.md §4)"

def main():
    checks, na = [], []
    for pid in sorted(TITLES):
        if pid in CHECKS:
            cat, tech, text, note, ref = CHECKS[pid]
            checks.append({"property_id": pid, "quick_cmd": "./check %s --tier quick" % pid,
                           "thorough_cmd": "./check %s --tier thorough" % pid,
                           "evidence_file": "/verif/evidence/%s.json" % pid,
                           "replay_cmd_template": "./check %s --replay {path}" % pid,
                           "engine": "check", "technique": tech,
                           "level_claimed": {"category": cat, "text": text, "design_ref": ref},
                           "level_note": note})
        else:
            na.append({"property_id": pid, "reason": NOT_YET})
    m = {"version": 1, "setup_cmd": "./setup.sh",
         "hooks": {"guard": "LIBNSTD_VERIF", "enable": "no source hooks are needed: harnesses compile /repo sources directly "
                   "with -fno-access-control / forced-include shims (guard reserved, unused)",
                   "baseline_off_cmd": "cmake --build /repo/_build && ctest --test-dir /repo/_build -j8 --timeout 900",
                   "source_commits": [], "add_only": True},
         "engines": [{"name": "check", "path": "/verif/check", "serves_properties": sorted(CHECKS),
                      "kind_free_text": "bounded exhaustive exploration of the real implementation (history BFS, schedule DFS, "
                                        "environment DFS, input enumeration) with reference-model oracles"}],
         "checks": checks, "not_applicable": na,
         "notes": "see DESIGN.md; known findings in known_findings.txt"}
    json.dump(m, open(os.path.join(HERE, "MANIFEST.json"), "w"), indent=1)
    print("checks:", len(checks), "not_applicable:", len(na))
main()
